//! Registry: which world decides which property, with budgets and evidence metadata.

use crate::kit::CheckSpec;
use crate::worlds;

static ALL: &[CheckSpec] = &[
    CheckSpec {
        property: "C14",
        world: "D-frame",
        level: "fault_enumeration",
        quick_runs: 40_000,
        thorough_runs: 400_000,
        quick_secs: 100,
        thorough_secs: 1200,
        rule: "one run = 1..5 frames (gossip/git/control, payload 0 B..100 KB, every varint width incl. non-minimal) with at most one byzantine alteration on the last frame (lying length up to 2^62-1, truncated/garbage/over-long inner message, bad version, bad stream kind, cut), fed to the real Deserializer through every single split point (streams <= 600 B; <= 3000 B thorough), sampled + boundary split points otherwise, and multi-way splits; non-trivial = >= 2 frames or a fault; distinct = distinct sequence of (frame kind, fault) log lines",
        real: &["radicle_node::deserializer::Deserializer", "wire::frame::Frame decode/encode", "wire::varint", "wire::message codec", "BoundedVec"],
        stubbed: &["the socket: bytes are handed to Deserializer::input in scheduler-chosen chunks, as Wire::handle_transport_event(Data) does"],
        assumptions: &["allocation is measured per deserialize_next call by a counting global allocator on the calling thread", "bound used: largest single request <= 2 x bytes received on the connection + 64 KiB", "requests above 256 MiB abort the worker process and are reported as abort/alloc-cap"],
        required_probes: &["probe.all_split_points", "fault.frame.lying-length", "fault.frame.truncated-inner"],
        needs_scratch: false,
        run: worlds::dframe::run,
    },
];

pub fn all() -> &'static [CheckSpec] {
    ALL
}

pub fn find(p: &str) -> Option<&'static CheckSpec> {
    ALL.iter().find(|c| c.property == p)
}

//! hwsim: deterministic simulation with fault injection for radicle heartwood.

mod checks;
mod gen;
mod kit;
mod worlds;

#[global_allocator]
static ALLOC: kit::alloc::Counting = kit::alloc::Counting;

fn usage() -> ! {
    eprintln!("usage: hwsim check <Cxx> <quick|thorough> | replay <file> | worker .. | exec .. | list");
    std::process::exit(2)
}

fn main() {
    kit::json::install_hook();
    let args: Vec<String> = std::env::args().collect();
    if args.len() < 2 {
        usage();
    }
    match args[1].as_str() {
        "list" => {
            for c in checks::all() {
                println!("{} world={} level={}", c.property, c.world, c.level);
            }
        }
        "check" => {
            if args.len() < 4 {
                usage();
            }
            let Some(spec) = checks::find(&args[2]) else {
                eprintln!("unknown check {}", args[2]);
                std::process::exit(2);
            };
            let tier = std::env::var("VERIF_TIER").ok().unwrap_or_else(|| args[3].clone());
            let mut code = kit::driver::check(spec, tier == "thorough");
            // a property decided in more than one world: the companions ("<id>+<world>") run after
            // the primary one and their evidence is folded into the property's evidence file
            for comp in checks::all().iter().filter(|c| c.property.starts_with(&format!("{}+", spec.property))) {
                let c2 = kit::driver::check(comp, tier == "thorough");
                code = code.max(c2);
                let out_dir = std::env::var("VERIF_OUT").unwrap_or_else(|_| "/verif".to_string());
                let main_path = format!("{out_dir}/evidence/{}.json", spec.property);
                let comp_path = format!("{out_dir}/evidence/{}.json", comp.property);
                if let (Ok(a), Ok(b)) = (std::fs::read(&main_path), std::fs::read(&comp_path)) {
                    if let (Ok(mut a), Ok(b)) = (serde_json::from_slice::<serde_json::Value>(&a), serde_json::from_slice::<serde_json::Value>(&b)) {
                        let viol = a["violations"].as_u64().unwrap_or(0) + b["violations"].as_u64().unwrap_or(0);
                        a["violations"] = serde_json::json!(viol);
                        let wall = a["wall_s"].as_f64().unwrap_or(0.0) + b["wall_s"].as_f64().unwrap_or(0.0);
                        a["wall_s"] = serde_json::json!(wall);
                        let mut extra = a["coverage"]["additional_worlds"].as_array().cloned().unwrap_or_default();
                        extra.push(serde_json::json!({"check": comp.property, "coverage": b["coverage"].clone(), "real": b["real"].clone(), "stubbed": b["stubbed"].clone()}));
                        a["coverage"]["additional_worlds"] = serde_json::json!(extra);
                        let _ = std::fs::write(&main_path, serde_json::to_vec_pretty(&a).unwrap());
                        let _ = std::fs::remove_file(&comp_path);
                    }
                }
            }
            std::process::exit(code);
        }
        "worker" => {
            // worker <prop> <base_seed> <from> <to> <stride> <tier> <deadline_s>
            let spec = checks::find(&args[2]).expect("check");
            let base: u64 = args[3].parse().unwrap();
            let from: u64 = args[4].parse().unwrap();
            let to: u64 = args[5].parse().unwrap();
            let stride: u64 = args[6].parse().unwrap();
            let thorough = args[7] == "thorough";
            let deadline: u64 = args[8].parse().unwrap();
            kit::driver::worker(spec, base, from, to, stride, thorough, deadline);
        }
        "exec" => {
            // exec <prop> <seed> <index> <tier> [choices-file]
            let spec = checks::find(&args[2]).expect("check");
            let seed: u64 = args[3].parse().unwrap();
            let index: u64 = args[4].parse().unwrap();
            let thorough = args[5] == "thorough";
            let choices = args.get(6).map(|f| {
                let b = std::fs::read(f).expect("choices file");
                serde_json::from_slice::<Vec<Vec<u32>>>(&b).expect("choices json")
            });
            kit::driver::exec_one(spec, seed, index, thorough, choices);
        }
        "selfcheck" => {
            std::process::exit(kit::driver::selfcheck(checks::all()));
        }
        "replay" => {
            if args.len() < 3 {
                usage();
            }
            std::process::exit(kit::driver::replay(|p| checks::find(p), &args[2]));
        }
        _ => usage(),
    }
}

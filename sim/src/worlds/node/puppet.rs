//! The scheduler's main loop, puppet actions (honest, relaying and byzantine peers),
//! operator commands and faults.

use std::cmp::Reverse;

use crossbeam_channel as chan;
use radicle::node::policy::Scope;
use radicle::node::{ConnectOptions, Features, NodeId, Timestamp};
use radicle::storage::refs::RefsAt;
use radicle_node::service::filter::Filter;
use radicle_node::service::message::{Info, Ping, Subscribe, ZeroBytes};
use radicle_node::service::{Command, Message};
use radicle_node::wire;
use radicle_node::wire::verif::{Control, Frame, StreamId};
use radicle_node::Link;

use super::*;
use crate::gen;
use crate::worlds::dframe::varint;

/// An IPv4-mapped IPv6 address (`::ffff:a.b.c.d`): a distinct encoding of a host that also has an IPv4 form.
fn mapped_v4(n: u64) -> radicle::node::Address {
    let v4 = std::net::Ipv4Addr::new(9, 9, (n >> 8) as u8, n as u8);
    radicle::node::Address::from(std::net::SocketAddr::from((v4.to_ipv6_mapped(), 8776)))
}

impl<'a> Sim<'a> {
    pub fn main_loop(&mut self) {
        let steps = self.sw.steps;
        for _ in 0..steps {
            if self.stop || self.ch.exhausted() {
                break;
            }
            self.ch.mark();
            let w = self.sw.w;
            match self.ch.weighted(&w) {
                0 => self.deliver_next(false),
                1 => self.puppet_action(),
                2 => self.command(),
                3 => self.fault(),
                _ => self.deliver_next(true),
            }
            // the first oracle failure of the property under check ends the run: what follows is noise
            if !self.res.violations.is_empty() {
                self.stop = true;
            }
        }
        // Let what is in flight land (bounded), without new injections.
        self.ch.mark();
        let mut budget = 60;
        let horizon = self.now + 10_000;
        while budget > 0 && !self.stop {
            let Some(Reverse((t, _, _))) = self.heap.peek() else { break };
            if *t > horizon {
                break;
            }
            self.deliver_next(false);
            budget -= 1;
        }
    }

    /// Pop the earliest event (or, with `reorder`, one of the next few that are due soon).
    fn deliver_next(&mut self, reorder: bool) {
        if self.heap.is_empty() {
            return;
        }
        if reorder && self.heap.len() >= 2 {
            // take up to 4 earliest; pick one; push the rest back
            let mut taken = Vec::new();
            for _ in 0..4 {
                if let Some(e) = self.heap.pop() {
                    taken.push(e);
                }
            }
            let horizon = taken[0].0 .0 + 2_000;
            let eligible: Vec<usize> = taken.iter().enumerate().filter(|(_, e)| e.0 .0 <= horizon).map(|(i, _)| i).collect();
            let k = eligible[self.ch.pick_usize(eligible.len())];
            let Reverse((t, _, ev)) = taken.remove(k);
            for e in taken {
                self.heap.push(e);
            }
            if k != 0 {
                self.res.hit("fault.net.reordered_delivery");
            }
            self.now = self.now.max(t);
            self.handle(ev);
            return;
        }
        let Reverse((t, _, ev)) = self.heap.pop().unwrap();
        self.now = self.now.max(t);
        self.handle(ev);
    }

    // ------------------------------------------------------------------ puppets

    fn ts_choice(&mut self, node: usize, stored: u64) -> u64 {
        let now = self.local_time(node).max(self.nodes[node].gt.clock);
        let h = 3_600_000u64;
        let base = if stored == 0 { now.saturating_sub(1000) } else { stored };
        // 0 => a fresh, strictly newer, valid timestamp
        match self.ch.weighted(&[10, 2, 2, 1, 1, 2, 1, 1, 1, 1]) {
            0 => base.max(now.saturating_sub(500)) + 1,
            1 => base,
            2 => base.saturating_sub(1),
            3 => now + h - 60_000,
            4 => now + h + 60_000,
            5 => now,
            6 => now.saturating_sub(2 * h),
            7 => 1,
            8 => 0,
            _ => *Timestamp::MAX,
        }
    }

    fn puppet_action(&mut self) {
        let p = self.ch.pick_usize(self.puppets.len());
        let node = self.ch.pick_usize(self.nodes.len());
        if self.nodes[node].svc.is_none() {
            return;
        }
        let conn = self.puppets[p].conns.get(&node).copied().filter(|c| self.conns.get(c).map(|c| c.alive).unwrap_or(false));
        let Some(conn) = conn else {
            // dial the node (inbound connection from its point of view)
            let me = Ep::Puppet(p);
            let busy = self.conns.values().any(|c| c.alive && ((c.a == me && c.b == Ep::Real(node)) || (c.b == me && c.a == Ep::Real(node))));
            if busy || self.partitioned(me, Ep::Real(node)) {
                return;
            }
            let id = self.next_conn;
            self.next_conn += 1;
            self.conns.insert(id, Conn { id, a: me, b: Ep::Real(node), ab: Default::default(), ba: Default::default(), pending_ab: false, pending_ba: false, alive: true });
            let d = 1 + self.ch.range(0, 200);
            self.schedule(d, Ev::Established { conn: id });
            self.res.trace.log("puppet-dial", format!("t={} p{p} dials n{node}", self.now - T0));
            return;
        };
        let link = if self.conns[&conn].a == Ep::Puppet(p) { Link::Outbound } else { Link::Inbound };
        // 0 => an honest, fresh node announcement of the puppet itself
        // the encoding check wants many byte-level variations of otherwise valid messages
        let kind = if self.own == "C15" && self.sw.f_bytes { self.ch.weighted(&[3, 5, 5, 4, 3, 2, 2, 1, 2, 6, 1]) } else { self.ch.weighted(&[3, 5, 5, 4, 3, 1, 1, 1, 2, 1, 1]) };
        let bytes: Vec<u8> = match kind {
            0 | 1 | 2 => {
                let m = self.puppet_announcement(p, node, kind as u8);
                Frame::gossip(link, m).to_bytes()
            }
            3 => {
                // subscribe
                let now = self.local_time(node);
                let pool = [0u64, 1, now.saturating_sub(3_600_000), now, now + 1, *Timestamp::MAX];
                let since = *self.ch.choose(&pool);
                let until = match self.ch.weighted(&[6, 1, 1, 1]) {
                    0 => *Timestamp::MAX,
                    1 => now,
                    2 => since.saturating_sub(1),
                    _ => 0,
                };
                let filter = match self.ch.pick(3) {
                    0 => Filter::default(),
                    1 => Filter::new(self.repos.iter().take(1).map(|r| r.rid)),
                    _ => Filter::empty(),
                };
                if since > until {
                    self.res.hit("probe.subscribe.since_after_until");
                }
                let m = Message::Subscribe(Subscribe { filter, since: Timestamp::try_from(since).unwrap_or(Timestamp::MAX), until: Timestamp::try_from(until).unwrap_or(Timestamp::MAX) });
                Frame::gossip(link, m).to_bytes()
            }
            4 => {
                // replay of anything seen in this run (any signer, including the node itself)
                if self.seen_anns.is_empty() {
                    return;
                }
                let b = self.seen_anns[self.ch.pick_usize(self.seen_anns.len())].clone();
                self.res.hit("probe.puppet.replay");
                let mut out = Vec::new();
                out.extend_from_slice(&[b'r', b'a', b'd', 1]);
                varint(if link.is_outbound() { 0b010 } else { 0b011 }, 1, &mut out);
                let w = crate::worlds::dframe::min_width(b.len() as u64);
                varint(b.len() as u64, w, &mut out);
                out.extend_from_slice(&b);
                out
            }
            5 => {
                let m = Message::Ping(Ping { ponglen: *self.ch.choose(&[0u16, 1, Ping::MAX_PONG_ZEROES - 1, Ping::MAX_PONG_ZEROES, Ping::MAX_PONG_ZEROES + 1, u16::MAX]), zeroes: ZeroBytes::new(*self.ch.choose(&[0u16, 7, Ping::MAX_PING_ZEROES])) });
                Frame::gossip(link, m).to_bytes()
            }
            6 => {
                let m = Message::Pong { zeroes: ZeroBytes::new(*self.ch.choose(&[0u16, 1, 64, Ping::MAX_PONG_ZEROES])) };
                Frame::gossip(link, m).to_bytes()
            }
            7 => {
                let rid = self.repos[self.ch.pick_usize(self.repos.len())].rid;
                Frame::gossip(link, Message::Info(Info::RefsAlreadySynced { rid, at: gen::oid_of(3) })).to_bytes()
            }
            8 => {
                // control frames with arbitrary stream ids
                let sid = StreamId::git(if self.ch.pick(2) == 0 { Link::Outbound } else { Link::Inbound }).nth(*self.ch.choose(&[0u64, 1, 2, 1 << 30])).unwrap();
                let c = match self.ch.pick(3) {
                    0 => Control::Open { stream: sid },
                    1 => Control::Close { stream: sid },
                    _ => Control::Eof { stream: sid },
                };
                self.res.hit("probe.puppet.control_frame");
                Frame::<Message>::control(link, c).to_bytes()
            }
            9 => {
                // byte-level misbehaviour (needs f_bytes): bit-flipped valid frame, truncated frame, garbage, huge length
                if !self.sw.f_bytes {
                    return;
                }
                self.res.hit("fault.puppet.raw_bytes");
                match if self.own == "C15" { self.ch.weighted(&[2, 5, 1, 1]) } else { self.ch.pick(4) as usize } {
                    0 => {
                        let m = self.puppet_announcement(p, node, 1);
                        let mut b = Frame::gossip(link, m).to_bytes();
                        let i = self.ch.pick_usize(b.len());
                        b[i] ^= 1 << self.ch.pick(8);
                        b
                    }
                    1 => {
                        // a complete frame whose inner message is cut short: an announcement, or a ping / pong
                        // with fewer zero bytes than its length says, or a node announcement whose trailing
                        // user agent is not a valid one
                        let which = self.ch.pick(4);
                        let m = match which {
                            0 => self.puppet_announcement(p, node, 2),
                            1 => Message::Ping(Ping { ponglen: 5, zeroes: ZeroBytes::new(*self.ch.choose(&[3u16, 9, 200])) }),
                            2 => Message::Pong { zeroes: ZeroBytes::new(*self.ch.choose(&[3u16, 9, 200])) },
                            _ => self.puppet_announcement(p, node, 0),
                        };
                        let mut b = wire::serialize(&m);
                        if which == 3 {
                            // alter the last byte (the closing '/' of the agent, when there is one)
                            let l = b.len();
                            b[l - 1] = *self.ch.choose(&[b'!', 0xff, b' ', b'a']);
                            self.res.hit("fault.puppet.node_announcement_with_invalid_agent");
                        }
                        let cut = if which == 3 {
                            b.len()
                        } else if which == 0 {
                            1 + self.ch.pick_usize(b.len() - 1)
                        } else {
                            self.res.hit("fault.puppet.truncated_ping_or_pong");
                            b.len() - 1 - self.ch.pick_usize(2)
                        };
                        b.truncate(cut);
                        let mut out = vec![b'r', b'a', b'd', 1];
                        varint(0b010, 1, &mut out);
                        varint(b.len() as u64, crate::worlds::dframe::min_width(b.len() as u64), &mut out);
                        out.extend_from_slice(&b);
                        out
                    }
                    2 => {
                        let n = 1 + self.ch.pick_usize(40);
                        self.ch.bytes(n)
                    }
                    _ => {
                        let mut out = vec![b'r', b'a', b'd', 1];
                        varint(*self.ch.choose(&[0b010u64, 0b100]), 1, &mut out);
                        varint(*self.ch.choose(&[1u64 << 20, 3 << 20, 1 << 30, (1 << 62) - 1]), 8, &mut out);
                        out
                    }
                }
            }
            _ => {
                // puppet closes the connection
                self.res.trace.log("puppet-close", format!("t={} p{p} closes its connection to n{node}", self.now - T0));
                self.close_remote(conn, Ep::Puppet(p));
                self.puppets[p].conns.remove(&node);
                return;
            }
        };
        self.res.hit("probe.puppet.sent");
        self.push_bytes(conn, Ep::Puppet(p), bytes);
    }

    /// kind 0: node announcement, 1: inventory, 2: refs
    fn puppet_announcement(&mut self, p: usize, node: usize, kind: u8) -> Message {
        // who is announcing: 0 => the puppet itself
        let who = self.ch.weighted(&[8, 3, 1, 1, 1]);
        let (signer, kidx) = match who {
            0 => (self.puppets[p].signer.clone(), 20 + p as u64),
            1 => {
                let q = self.ch.pick_usize(self.puppets.len());
                (self.puppets[q].signer.clone(), 20 + q as u64)
            }
            2 => (self.extra_keys[0].clone(), 40),
            3 => (self.extra_keys[1].clone(), 41),
            _ => (self.nodes[node].signer.clone(), node as u64),
        };
        let announcer: NodeId = *signer.public_key();
        let rix = self.ch.pick_usize(self.repos.len());
        let rid = self.repos[rix].rid;
        let skey = (kidx, kind, if kind == 2 { rix as u64 + 1 } else { 0 });
        let stored = self.puppets[p].stored.get(&skey).copied().unwrap_or(0);
        let ts = self.ts_choice(node, stored);
        if ts == 0 {
            self.res.hit("probe.puppet.timestamp_zero");
        }
        if ts > stored && ts < u64::MAX / 4 {
            self.puppets[p].stored.insert(skey, ts);
        }
        let tsv = Timestamp::try_from(ts).unwrap_or(Timestamp::MAX);
        let am: radicle_node::service::message::AnnouncementMessage = match kind {
            0 => {
                let seed = self.ch.pick(8) == 1; // SEED => address book update + proof-of-work check (scrypt): keep it rare
                let n = self.ch.pick(3) as u64;
                gen::node_announcement(tsv, &format!("k{kidx}"), (0..n).map(|i| if self.ch.pick(6) == 5 { mapped_v4(100 + kidx * 4 + i) } else { gen::addr_of(100 + kidx * 4 + i) }).collect(), if seed { Features::SEED } else { Features::NONE }, if self.ch.pick(2) == 0 { Some("/radicle:sim/") } else { None }).into()
            }
            1 => {
                let mut rids = Vec::new();
                for r in &self.repos {
                    if self.ch.pick(2) == 0 {
                        rids.push(r.rid);
                    }
                }
                if self.ch.pick(8) == 7 {
                    rids.extend((0..*self.ch.choose(&[10u64, 500, 2973])).map(gen::rid_of));
                }
                gen::inventory(tsv, rids).into()
            }
            _ => {
                let mut rs = Vec::new();
                let n = self.ch.weighted(&[1, 6, 2, 1]);
                for k in 0..n {
                    let remote = match self.ch.pick(3) {
                        0 => announcer,
                        1 => self.nodes[node].nid,
                        _ => *self.puppets[self.ch.pick_usize(self.puppets.len())].signer.public_key(),
                    };
                    rs.push(RefsAt { remote, at: gen::oid_of(ts ^ k as u64) });
                }
                if self.repos[rix].private {
                    self.res.hit("probe.puppet.refs_ann_private_repo");
                }
                gen::refs(tsv, rid, rs).into()
            }
        };
        // signature: 0 => valid
        // a peer cannot produce a valid signature of the node under test: such announcements are
        // either forged here or come from the replay action (bytes the node itself emitted)
        let sigw: [u32; 3] = if who == 4 { [0, 1, 1] } else { [12, 1, 1] };
        let ann = match self.ch.weighted(&sigw) {
            0 => am.signed(&signer),
            1 => {
                self.res.hit("fault.puppet.forged_signature");
                let mut a = am.signed(&signer);
                let mut sig: [u8; 64] = **a.signature;
                sig[self.ch.pick_usize(64)] ^= 0x40;
                a.signature = radicle::crypto::Signature::from(sig);
                a
            }
            _ => {
                self.res.hit("fault.puppet.signed_by_other_key");
                let other = self.puppets[(p + 1) % self.puppets.len()].signer.clone();
                let mut a = am.signed(&other);
                a.node = announcer;
                a
            }
        };
        Message::Announcement(ann)
    }

    // ------------------------------------------------------------------ operator

    fn command(&mut self) {
        let node = self.ch.pick_usize(self.nodes.len());
        if self.nodes[node].svc.is_none() {
            return;
        }
        let rix = self.ch.pick_usize(self.repos.len());
        let rid = self.repos[rix].rid;
        let peers: Vec<NodeId> = self.nodes.iter().filter(|n| n.idx != node).map(|n| n.nid).chain(self.puppets.iter().map(|p| p.nid)).collect();
        let peer = peers[self.ch.pick_usize(peers.len())];
        // 0 => fetch (the richest command for the scheduler)
        let which = self.ch.weighted(&[6, 4, 2, 2, 2, 1, 3, 2, 1]);
        let (name, cmd): (&'static str, Command) = match which {
            0 => {
                let (tx, rx) = chan::unbounded();
                let id = self.chans.len() as u64;
                self.chans.push(FetchChan { id, node, rid, tx: tx.clone(), rx, got: false });
                self.res.trace.log("cmd-fetch", format!("t={} n{node} command Fetch({}, {}) channel#{id}", self.now - T0, self.rname(&rid), self.name(&peer)));
                ("fetch", Command::Fetch(rid, peer, std::time::Duration::from_secs(3), tx))
            }
            1 => {
                // local push: new signed refs for our own namespace, then announce
                let has = self.nodes[node].storage.repos.contains_key(&rid);
                if !has {
                    return;
                }
                let signer = self.nodes[node].signer.clone();
                let nid = self.nodes[node].nid;
                let n = self.ch.seed ^ self.res.trace.count;
                let repo = self.nodes[node].storage.repos.get_mut(&rid).unwrap();
                let sr = super::setup::signed_refs_at(&signer, repo, n);
                repo.remotes.insert(nid, sr);
                let repo2 = repo.clone();
                if let Some(svc) = self.nodes[node].svc.as_mut() {
                    svc.storage_mut().repos.insert(rid, repo2);
                }
                let (tx, _rx) = chan::unbounded();
                self.res.trace.log("cmd-announce-refs", format!("t={} n{node} command AnnounceRefs({})", self.now - T0, self.rname(&rid)));
                if self.repos[rix].private {
                    self.res.hit("probe.c11.own_private_announce");
                }
                ("announce-refs", Command::AnnounceRefs(rid, tx))
            }
            2 => ("announce-inventory", Command::AnnounceInventory),
            3 => {
                // operator contract (rad init / seed / publish): only public repositories are added to the inventory
                if self.repos[rix].private || self.nodes[node].storage.repos.get(&rid).map(|r| r.doc.doc.is_private()).unwrap_or(false) {
                    return;
                }
                let (tx, _rx) = chan::unbounded();
                ("add-inventory", Command::AddInventory(rid, tx))
            }
            4 => {
                let (tx, _rx) = chan::unbounded();
                ("seed", Command::Seed(rid, if self.ch.pick(2) == 0 { Scope::All } else { Scope::Followed }, tx))
            }
            5 => {
                let (tx, _rx) = chan::unbounded();
                ("unseed", Command::Unseed(rid, tx))
            }
            6 => {
                let addr = match self.ep_of(&peer) {
                    Some(Ep::Real(j)) => self.nodes[j].addr.clone(),
                    Some(Ep::Puppet(j)) => self.puppets[j].addr.clone(),
                    None => return,
                };
                let persistent = self.ch.pick(3) == 1;
                self.res.trace.log("cmd-connect", format!("t={} n{node} command Connect({}, persistent={persistent})", self.now - T0, self.name(&peer)));
                ("connect", Command::Connect(peer, addr, ConnectOptions { persistent, timeout: std::time::Duration::from_secs(6) }))
            }
            7 => {
                self.res.trace.log("cmd-disconnect", format!("t={} n{node} command Disconnect({})", self.now - T0, self.name(&peer)));
                ("disconnect", Command::Disconnect(peer))
            }
            _ => {
                let (tx, _rx) = chan::unbounded();
                ("follow", Command::Follow(peer, None, tx))
            }
        };
        if !matches!(which, 0 | 1 | 6 | 7) {
            self.res.trace.log(&format!("cmd-{name}"), format!("t={} n{node} command {name}({})", self.now - T0, self.rname(&rid)));
        }
        let trig = Trigger::Command(name);
        if self.call(node, &trig, |s| s.command(cmd)).is_some() {
            self.drain(node, &[(trig, usize::MAX)]);
        }
    }

    // ------------------------------------------------------------------ faults

    fn fault(&mut self) {
        if !self.sw.faults_on {
            return;
        }
        let w = [
            if self.sw.f_drop { 4 } else { 0 },
            if self.sw.f_partition { 2 } else { 0 },
            if self.sw.f_restart { 1 } else { 0 },
            if self.sw.f_clock { 3 } else { 0 },
        ];
        if w.iter().sum::<u32>() == 0 {
            return;
        }
        match self.ch.weighted(&w) {
            0 => {
                // drop a live connection: both ends find out independently
                let live: Vec<u64> = self.conns.values().filter(|c| c.alive).map(|c| c.id).collect();
                if live.is_empty() {
                    return;
                }
                let id = live[self.ch.pick_usize(live.len())];
                let (a, b) = (self.conns[&id].a, self.conns[&id].b);
                self.res.hit("fault.net.connection_dropped");
                self.res.trace.log("fault-drop", format!("t={} FAULT connection {:?}<->{:?} drops", self.now - T0, a, b));
                self.conns.get_mut(&id).unwrap().alive = false;
                for (me, other) in [(a, b), (b, a)] {
                    match me {
                        Ep::Real(i) => {
                            let gen = self.nodes[i].gen;
                            let peer = self.nid_of(other);
                            let d = 1 + self.ch.range(0, 3000);
                            self.schedule(d, Ev::Closed { node: i, gen, peer, conn: id });
                        }
                        Ep::Puppet(p) => {
                            if let Ep::Real(i) = other {
                                self.puppets[p].conns.remove(&i);
                            }
                        }
                    }
                }
            }
            1 => {
                let eps: Vec<Ep> = (0..self.nodes.len()).map(Ep::Real).chain((0..self.puppets.len()).map(Ep::Puppet)).collect();
                let a = Ep::Real(self.ch.pick_usize(self.nodes.len()));
                let b = eps[self.ch.pick_usize(eps.len())];
                if a == b {
                    return;
                }
                let k = (a.min(b), a.max(b));
                if self.partitions.remove(&k) {
                    self.res.hit("fault.net.partition_healed");
                    self.res.trace.log("fault-heal", format!("t={} FAULT partition {:?}|{:?} heals", self.now - T0, k.0, k.1));
                } else {
                    self.partitions.insert(k);
                    self.res.hit("fault.net.partition");
                    self.res.trace.log("fault-partition", format!("t={} FAULT partition {:?}|{:?}", self.now - T0, k.0, k.1));
                    let ids: Vec<u64> = self.conns.values().filter(|c| c.alive && (c.a.min(c.b), c.a.max(c.b)) == k).map(|c| c.id).collect();
                    for id in ids {
                        let (x, y) = (self.conns[&id].a, self.conns[&id].b);
                        self.close_remote(id, x);
                        self.conns.get_mut(&id).unwrap().alive = true;
                        self.close_remote(id, y);
                    }
                }
            }
            2 => {
                // crash: process state is lost, durable state (node db, policies, storage) survives
                let i = self.ch.pick_usize(self.nodes.len());
                if self.nodes[i].svc.is_none() {
                    return;
                }
                self.res.hit("fault.node.crash_restart");
                self.res.trace.log("fault-crash", format!("t={} FAULT n{i} crashes", self.now - T0));
                self.nodes[i].svc = None;
                let peers: Vec<(NodeId, u64)> = self.nodes[i].wire.iter().map(|(k, v)| (*k, v.conn)).collect();
                self.nodes[i].wire.clear();
                let dialing: Vec<u64> = self.nodes[i].dialing.values().copied().collect();
                self.nodes[i].dialing.clear();
                for (_, c) in peers {
                    self.close_remote(c, Ep::Real(i));
                }
                for c in dialing {
                    self.close_remote(c, Ep::Real(i));
                }
                let gen = self.nodes[i].gen;
                for t in self.tasks.iter_mut() {
                    if t.node == i && t.gen == gen {
                        t.done = true;
                    }
                }
                // the storage the next process sees is what was on disk; sometimes the operator used the
                // downtime to make a public repository private (`rad id update --visibility private`)
                if self.ch.pick(3) == 0 {
                    let mut publics: Vec<RepoId> = self.nodes[i].storage.repos.iter().filter(|(_, r)| r.doc.doc.is_public()).map(|(k, _)| *k).collect();
                    publics.sort();
                    if !publics.is_empty() {
                        let rid = publics[self.ch.pick_usize(publics.len())];
                        let repo = self.nodes[i].storage.repos.get_mut(&rid).unwrap();
                        if let Ok(doc) = repo.doc.doc.clone().with_edits(|raw| raw.visibility = radicle::identity::Visibility::private([])) {
                            repo.doc.doc = doc;
                            self.nodes[i].made_private.insert(rid);
                            self.res.hit("fault.node.repository_made_private_while_down");
                            let name = self.rname(&rid);
                            self.res.trace.log("fault-visibility", format!("t={} FAULT n{i}: {name} is made private while the node is down", self.now - T0));
                        }
                    }
                }
                let d = 1 + self.ch.range(0, 120_000);
                self.schedule(d, Ev::Start { node: i });
            }
            _ => {
                let i = self.ch.pick_usize(self.nodes.len());
                let delta: i64 = *self.ch.choose(&[-1i64, -1_000, -120_000, -7_200_000, 1_000, 90_000, 3_600_000, 90_000_000]);
                self.nodes[i].skew_ms += delta;
                self.res.hit(if delta < 0 { "fault.clock.backward_step" } else { "fault.clock.forward_jump" });
                self.res.trace.log("fault-clock", format!("t={} FAULT n{i} clock steps by {delta} ms", self.now - T0));
            }
        }
    }
}

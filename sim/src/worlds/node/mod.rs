//! World A — NODE-SIM: real `Service` instances (real SQLite stores, real frame codec)
//! on a simulated network, worker pool, clock and operator; puppets are byzantine or
//! honest remote peers that exist only as keys inside the harness.

mod net;
mod oracle;
mod puppet;
mod setup;

use std::collections::{BTreeMap, BTreeSet, BinaryHeap, VecDeque};
use std::cmp::Reverse;

use crossbeam_channel as chan;
use radicle::crypto::test::signer::MockSigner;
use radicle::identity::RepoId;
use radicle::node::device::Device;
use radicle::node::{Address, Database, NodeId};
use radicle::test::storage::MockStorage;
use radicle_node::deserializer::Deserializer;
use radicle_node::service::Message;
use radicle_node::wire::verif::{Frame, MAX_INBOX_SIZE};
use radicle_node::Link;

use crate::kit::{Chooser, RunCfg, RunResult};

pub type Svc = radicle_node::service::Service<Database, MockStorage, MockSigner>;

/// An endpoint of the simulated network.
#[derive(Clone, Copy, PartialEq, Eq, PartialOrd, Ord, Debug)]
pub enum Ep {
    Real(usize),
    Puppet(usize),
}

/// Swarm configuration: drawn once per run.
pub struct Swarm {
    pub n_real: usize,
    pub n_puppets: usize,
    pub n_repos: usize,
    pub steps: usize,
    pub fetch_concurrency: usize,
    pub faults_on: bool,
    /// weights of the scheduler's alternatives: deliver-next, puppet action, operator command, fault, reorder
    pub w: [u32; 5],
    /// per-fault-kind enable bits
    pub f_drop: bool,
    pub f_partition: bool,
    pub f_restart: bool,
    pub f_clock: bool,
    pub f_worker: bool,
    pub f_dial: bool,
    pub f_bytes: bool,
    pub relay_always: bool,
    pub seed_all: bool,
}

pub enum WireState {
    Connected,
    Disconnecting,
}

/// Model of `Wire`'s per-peer entry.
pub struct WirePeer {
    pub link: Link,
    pub conn: u64,
    pub state: WireState,
    pub inbox: Deserializer<MAX_INBOX_SIZE, Frame<Message>>,
    /// the bytes in `inbox` that no frame has consumed yet (the decoder drains them out of reach)
    pub shadow: Vec<u8>,
    /// open initiator streams: stream number -> task id
    pub streams: BTreeMap<u64, u64>,
    pub next_stream: u64,
}

pub struct RealNode {
    pub idx: usize,
    pub nid: NodeId,
    pub signer: Device<MockSigner>,
    pub addr: Address,
    pub svc: Option<Svc>,
    pub db: Database,
    pub policies_path: std::path::PathBuf,
    pub storage: MockStorage,
    pub config: radicle_node::service::Config,
    pub skew_ms: i64,
    pub gen: u32,
    pub wire: BTreeMap<NodeId, WirePeer>,
    /// outbound attempts in progress: peer -> conn
    pub dialing: BTreeMap<NodeId, u64>,
    pub gt: oracle::Truth,
    /// repositories made private while the node was down
    pub made_private: std::collections::BTreeSet<RepoId>,
}

pub struct Puppet {
    pub idx: usize,
    pub nid: NodeId,
    pub signer: Device<MockSigner>,
    pub addr: Address,
    /// connection to each real node, if any: real idx -> conn id
    pub conns: BTreeMap<usize, u64>,
    /// last timestamp used per (announcer key idx, kind, repo)
    pub stored: BTreeMap<(u64, u8, u64), u64>,
}

/// A simulated transport connection.
pub struct Conn {
    pub id: u64,
    pub a: Ep,
    pub b: Ep,
    /// bytes in flight a->b and b->a
    pub ab: VecDeque<u8>,
    pub ba: VecDeque<u8>,
    pub pending_ab: bool,
    pub pending_ba: bool,
    pub alive: bool,
}

#[derive(Clone, Debug)]
pub enum Outcome {
    Ok,
    ErrIo,
    Timeout,
}

pub struct Task {
    pub id: u64,
    pub node: usize,
    pub gen: u32,
    pub rid: RepoId,
    pub remote: NodeId,
    pub conn: u64,
    pub stream: u64,
    pub done: bool,
    pub aborted: bool,
    /// never handed to a worker (Wire dropped the Io::Fetch)
    pub dropped: bool,
    pub outcome: Outcome,
    /// retired from the service's point of view (ground truth)
    pub retired: bool,
    /// operator channels attached to this emission
    pub attached: BTreeSet<u64>,
    /// number of `refs_at` entries of the emitted fetch (0 = a full fetch)
    pub nrefs: usize,
}

#[derive(Clone, Debug, PartialEq, Eq, PartialOrd, Ord)]
pub enum Ev {
    Wake { node: usize, gen: u32 },
    Bytes { conn: u64, to: Ep },
    Established { conn: u64 },
    DialFail { node: usize, gen: u32, peer: NodeId, transient: bool },
    Handover { node: usize, gen: u32, peer: NodeId, conn: u64 },
    Closed { node: usize, gen: u32, peer: NodeId, conn: u64 },
    WorkerDone { task: u64 },
    Start { node: usize },
}

/// Why the service was called (for attributing its outputs).
#[derive(Clone, Debug)]
pub enum Trigger {
    Init,
    Wake,
    Command(&'static str),
    Connected(NodeId),
    Disconnected(NodeId),
    Fetched,
    Attempted,
    /// message `kind` delivered from peer
    Msg { from: NodeId, kind: &'static str },
}

pub struct FetchChan {
    pub id: u64,
    pub node: usize,
    pub rid: RepoId,
    pub tx: chan::Sender<radicle::node::FetchResult>,
    pub rx: chan::Receiver<radicle::node::FetchResult>,
    pub got: bool,
}

pub struct Sim<'a> {
    pub ch: &'a mut Chooser,
    pub own: String,
    pub res: RunResult,
    pub sw: Swarm,
    pub now: u64,
    pub seq: u64,
    pub heap: BinaryHeap<Reverse<(u64, u64, Ev)>>,
    pub nodes: Vec<RealNode>,
    pub puppets: Vec<Puppet>,
    pub conns: BTreeMap<u64, Conn>,
    pub next_conn: u64,
    pub tasks: Vec<Task>,
    pub chans: Vec<FetchChan>,
    pub repos: Vec<setup::RepoSpec>,
    pub partitions: BTreeSet<(Ep, Ep)>,
    /// announcements seen anywhere in the run (for replays): encoded message bytes
    pub seen_anns: Vec<Vec<u8>>,
    pub stop: bool,
    pub scratch: std::path::PathBuf,
    pub extra_keys: Vec<Device<MockSigner>>,
    /// a late fetch result has been applied to another fetch in this run: later C16 symptoms are consequences
    pub c16_tainted: bool,
    /// (node, rid, current task, stale task): a stale result was just delivered; an Io::Fetch for rid in the same drain proves the current entry was removed
    pub stale_watch: Option<(usize, RepoId, u64, u64)>,
    /// Set while the Io of a `fetched()` call is drained whose repository had no fetch entry in the
    /// service before the call (node, task id): such a result belongs to no fetch and must have no effect.
    pub orphan_result: Option<(usize, u64)>,
}

pub const T0: u64 = 1_700_000_000_000;

impl<'a> Sim<'a> {
    pub fn schedule(&mut self, delay: u64, ev: Ev) {
        self.seq += 1;
        self.heap.push(Reverse((self.now + delay, self.seq, ev)));
    }

    pub fn ep_of(&self, nid: &NodeId) -> Option<Ep> {
        if let Some(n) = self.nodes.iter().find(|n| n.nid == *nid) {
            return Some(Ep::Real(n.idx));
        }
        self.puppets.iter().find(|p| p.nid == *nid).map(|p| Ep::Puppet(p.idx))
    }

    pub fn nid_of(&self, ep: Ep) -> NodeId {
        match ep {
            Ep::Real(i) => self.nodes[i].nid,
            Ep::Puppet(j) => self.puppets[j].nid,
        }
    }

    pub fn name(&self, nid: &NodeId) -> String {
        match self.ep_of(nid) {
            Some(Ep::Real(i)) => format!("n{i}"),
            Some(Ep::Puppet(j)) => format!("p{j}"),
            None => {
                if let Some(k) = self.extra_keys.iter().position(|k| k.public_key() == nid) {
                    format!("x{k}")
                } else {
                    "?".to_string()
                }
            }
        }
    }

    pub fn rname(&self, rid: &RepoId) -> String {
        match self.repos.iter().position(|r| r.rid == *rid) {
            Some(i) => format!("r{i}"),
            None => "r?".to_string(),
        }
    }

    pub fn partitioned(&self, a: Ep, b: Ep) -> bool {
        self.partitions.contains(&(a.min(b), a.max(b)))
    }

    pub fn local_time(&self, node: usize) -> u64 {
        (self.now as i64 + self.nodes[node].skew_ms).max(1) as u64
    }
}

pub fn run(ch: &mut Chooser, cfg: &RunCfg) -> RunResult {
    let mut sim = setup::build(ch, cfg);
    sim.main_loop();
    sim.finish();
    sim.res
}

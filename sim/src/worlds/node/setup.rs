//! Building a run: swarm configuration, repositories, real nodes, puppets.

use std::collections::{BTreeMap, BTreeSet, BinaryHeap, HashMap};
use std::str::FromStr;

use radicle::identity::doc::{Doc, Visibility};
use radicle::identity::project::Project;
use radicle::identity::{Did, RepoId};
use radicle::node::address::Store as _;
use radicle::node::policy::{Scope, SeedingPolicy};
use radicle::node::{address, Alias, Database, Features, KnownAddress, NodeId, UserAgent};
use radicle::storage::refs::{Refs, SignedRefsAt};
use radicle::test::storage::{MockRepository, MockStorage};
use radicle_node::runtime::Emitter;
use radicle_node::service::policy;
use radicle_node::service::{gossip, Config, Service};
use radicle_node::{LocalTime, PROTOCOL_VERSION};
use radicle::node::device::Device;
use radicle::crypto::test::signer::MockSigner;

use super::*;
use crate::gen;
use crate::kit::{Chooser, RunCfg, RunResult};

#[derive(Clone)]
pub struct RepoSpec {
    pub rid: RepoId,
    pub doc: Doc,
    pub private: bool,
    /// nids that may see it (delegates + allow list) when private
    pub visible_to: BTreeSet<NodeId>,
}

fn swarm(ch: &mut Chooser) -> Swarm {
    let faults_on = ch.pick(4) != 0;
    let n_real = 1 + ch.weighted(&[12, 3, 1]);
    let n_puppets = 1 + ch.pick_usize(4);
    Swarm {
        n_real,
        n_puppets,
        n_repos: 1 + ch.pick_usize(3),
        steps: 30 + ch.pick_usize(120),
        fetch_concurrency: 1 + ch.pick_usize(3),
        faults_on,
        w: [
            8 + ch.pick(8),
            3 + ch.pick(8),
            1 + ch.pick(5),
            if faults_on { 1 + ch.pick(3) } else { 0 },
            if faults_on { ch.pick(4) } else { 0 },
        ],
        f_drop: faults_on && ch.pick(3) != 0,
        f_partition: faults_on && ch.pick(3) == 1,
        f_restart: faults_on && ch.pick(3) == 1,
        f_clock: faults_on && ch.pick(3) == 1,
        f_worker: faults_on && ch.pick(2) == 1,
        f_dial: faults_on && ch.pick(3) == 1,
        f_bytes: faults_on && ch.pick(2) == 1,
        relay_always: ch.pick(4) != 3,
        seed_all: ch.pick(3) == 0,
    }
}

pub fn signed_refs_at(signer: &Device<MockSigner>, repo: &MockRepository, n: u64) -> SignedRefsAt {
    let mut refs = Refs::default();
    refs.insert(radicle::git::RefString::try_from("refs/heads/master").unwrap(), gen::oid_of(n ^ 0xA11CE));
    let sigrefs = refs.signed(signer).expect("sign").verified(repo).expect("verify own refs");
    SignedRefsAt { sigrefs, at: gen::oid_of(n ^ 0x51675) }
}

pub fn build<'a>(ch: &'a mut Chooser, cfg: &RunCfg) -> Sim<'a> {
    let seed = ch.seed;
    let sw = swarm(ch);
    let mut res = RunResult::new();

    // keys: real nodes 0.., puppets 20.., extra (never connected) 40..
    let real_keys: Vec<_> = (0..sw.n_real).map(|i| gen::key(seed, i as u64)).collect();
    let puppet_keys: Vec<_> = (0..sw.n_puppets).map(|i| gen::key(seed, 20 + i as u64)).collect();
    let extra_keys: Vec<_> = (0..2).map(|i| gen::key(seed, 40 + i as u64)).collect();
    let all_nids: Vec<NodeId> = real_keys.iter().chain(puppet_keys.iter()).map(|k| *k.public_key()).collect();

    // repositories
    let mut repos = Vec::new();
    for r in 0..sw.n_repos {
        let delegate = *ch.choose(&all_nids);
        let private = ch.pick(2) == 1;
        let mut visible: BTreeSet<NodeId> = BTreeSet::new();
        visible.insert(delegate);
        let mut allow = Vec::new();
        if private {
            for n in &all_nids {
                if ch.pick(3) == 0 {
                    allow.push(Did::from(*n));
                    visible.insert(*n);
                }
            }
        }
        let vis = if private { Visibility::private(allow) } else { Visibility::Public };
        let project = Project::new(
            format!("repo{r}").as_str().try_into().expect("project name"),
            "sim".to_string(),
            radicle::git::RefString::try_from("master").unwrap(),
        )
        .expect("project");
        let doc = Doc::initial(project, Did::from(delegate), vis);
        let (oid, _) = doc.encode().expect("encode doc");
        repos.push(RepoSpec { rid: RepoId::from(oid), doc, private, visible_to: visible });
    }

    let mut nodes = Vec::new();
    for i in 0..sw.n_real {
        let signer = real_keys[i].clone();
        let nid = *signer.public_key();
        let addr = gen::addr_of(1 + i as u64);
        let mut config = Config::test(Alias::from_str(&format!("n{i}")).unwrap());
        config.external_addresses.push(addr.clone());
        config.limits.fetch_concurrency = sw.fetch_concurrency;
        config.relay = if sw.relay_always { radicle::node::config::Relay::Always } else { radicle::node::config::Relay::Auto };
        // storage: a subset of repositories, each with our own signed refs
        let mut inv = Vec::new();
        for r in &repos {
            // a node holds a private repo only if it may see it
            if ch.pick(2) == 0 && (!r.private || r.visible_to.contains(&nid)) {
                inv.push(r.clone());
            }
        }
        let mut storage = MockStorage::empty();
        for r in &inv {
            let mut repo = MockRepository::new(r.rid, r.doc.clone());
            let sr = signed_refs_at(&signer, &repo, ch.seed ^ (i as u64) << 8);
            repo.remotes.insert(nid, sr);
            storage.repos.insert(r.rid, repo);
        }
        let db = Database::memory().expect("db").init(&nid, config.features(), &config.alias, &UserAgent::default(), LocalTime::from_millis(T0 as u128).into(), config.external_addresses.iter()).expect("db init");
        let policies_path = cfg.scratch.join(format!("policies-{i}.db"));
        nodes.push(RealNode {
            idx: i,
            nid,
            signer,
            addr,
            svc: None,
            db,
            policies_path,
            storage,
            config,
            skew_ms: 0,
            gen: 0,
            wire: BTreeMap::new(),
            dialing: BTreeMap::new(),
            gt: oracle::Truth::default(),
            made_private: Default::default(),
        });
    }
    let mut puppets = Vec::new();
    for j in 0..sw.n_puppets {
        let signer = puppet_keys[j].clone();
        puppets.push(Puppet {
            idx: j,
            nid: *signer.public_key(),
            signer,
            addr: gen::addr_of(100 + j as u64),
            conns: BTreeMap::new(),
            stored: BTreeMap::new(),
        });
    }

    // address books: every real node knows the other real nodes; puppets are known with prob 2/3.
    for i in 0..sw.n_real {
        let mut known: Vec<(NodeId, radicle::node::Address, String)> = Vec::new();
        for k in 0..sw.n_real {
            if k != i {
                known.push((nodes[k].nid, nodes[k].addr.clone(), format!("n{k}")));
            }
        }
        for p in &puppets {
            if ch.pick(3) != 2 {
                known.push((p.nid, p.addr.clone(), format!("p{}", p.idx)));
            }
        }
        for (nid, addr, alias) in known {
            nodes[i]
                .db
                .insert(&nid, PROTOCOL_VERSION, Features::SEED, &Alias::from_str(&alias).unwrap(), 0, &UserAgent::default(), LocalTime::from_millis(T0 as u128).into(), Some(KnownAddress::new(addr, address::Source::Imported)))
                .expect("address insert");
        }
    }

    res.trace.log(
        "setup",
        format!(
            "setup real={} puppets={} repos={} steps={} fetch_concurrency={} faults={} relay_always={} private={:?}",
            sw.n_real, sw.n_puppets, sw.n_repos, sw.steps, sw.fetch_concurrency, sw.faults_on, sw.relay_always,
            repos.iter().map(|r| r.private).collect::<Vec<_>>()
        ),
    );
    res.summary = format!("{} real node(s), {} puppet(s), {} repo(s), {} steps, faults={}", sw.n_real, sw.n_puppets, sw.n_repos, sw.steps, sw.faults_on);

    let mut sim = Sim {
        ch,
        own: if cfg.property.starts_with("ALL") { "*".to_string() } else { cfg.property.clone() },
        res,
        sw,
        now: T0,
        seq: 0,
        heap: BinaryHeap::new(),
        nodes,
        puppets,
        conns: BTreeMap::new(),
        next_conn: 1,
        tasks: Vec::new(),
        chans: Vec::new(),
        repos,
        partitions: BTreeSet::new(),
        seen_anns: Vec::new(),
        stop: false,
        scratch: cfg.scratch.clone(),
        extra_keys,
        c16_tainted: false,
        stale_watch: None,
        orphan_result: None,
    };
    for i in 0..sim.nodes.len() {
        sim.start_node(i);
    }
    let _ = HashMap::<u8, u8>::new();
    sim
}

impl<'a> Sim<'a> {
    /// (Re)create the service of node `i` from its durable state and initialize it.
    pub fn start_node(&mut self, i: usize) {
        let now = self.local_time(i);
        self.note_stored_own(i);
        let n = &mut self.nodes[i];
        let store = policy::Store::<policy::store::Write>::open(&n.policies_path).expect("policies");
        let default = if self.sw.seed_all { SeedingPolicy::Allow { scope: Scope::All } } else { SeedingPolicy::Block };
        let mut policies = policy::Config::new(default, store);
        if n.gen == 0 {
            for rid in n.storage.repos.keys() {
                policies.seed(rid, Scope::All).expect("seed");
            }
        }
        let ann = gossip::node(&n.config, radicle::node::Timestamp::try_from(now + 1).unwrap());
        let rng = fastrand::Rng::with_seed(self.ch.seed ^ ((i as u64) << 32) ^ n.gen as u64);
        let svc: Svc = Service::new(n.config.clone(), n.db.clone().into(), n.storage.clone(), policies, n.signer.clone(), rng, ann, Emitter::default());
        n.svc = Some(svc);
        n.gt.new_generation();
        // the new process' clock starts at its initialization time (and is monotone from there)
        n.gt.clock = now;
        {
            // hook H4: the counter and the cached inventory before `initialize`
            let (inv, last) = n.svc.as_ref().unwrap().verif_timestamps();
            n.gt.cached_inv = Some(*inv);
            n.gt.last_ts = *last;
        }
        let gen = n.gen;
        self.res.trace.log("start", format!("t={} n{i} start gen={gen}", self.now - T0));
        let r = crate::kit::json::catch(|| self.nodes[i].svc.as_mut().unwrap().initialize(LocalTime::from_millis(now as u128)));
        match r {
            Ok(Ok(())) => {}
            Ok(Err(e)) => {
                self.res.trace.log("init-error", format!("n{i} initialize error: {e}"));
            }
            Err(p) => {
                self.panic(i, &Trigger::Init, p);
                return;
            }
        }
        self.drain(i, &[(Trigger::Init, usize::MAX)]);
    }
}

//! Ground truth kept by the simulator and the oracles evaluated on it
//! (C10, C11, C13 consequence, C15, C16, C29).

use std::collections::{BTreeMap, BTreeSet};

use radicle::identity::RepoId;
use radicle::node::address::Store as _;
use radicle::node::NodeId;
use radicle_node::service::message::{Announcement, AnnouncementMessage};
use radicle_node::service::{DisconnectReason, Message, ServiceState as _};
use radicle_node::wire;

use super::net::msg_kind;
use super::*;
use crate::kit::{fnv, FNV0};

/// (announcer, kind, repo): the key under which the gossip store keeps one row.
pub type Key = (NodeId, u8, Option<RepoId>);

pub fn key_of(a: &Announcement) -> Key {
    match &a.message {
        AnnouncementMessage::Node(_) => (a.node, 0, None),
        AnnouncementMessage::Inventory(_) => (a.node, 1, None),
        AnnouncementMessage::Refs(r) => (a.node, 2, Some(r.rid)),
    }
}

pub fn ann_id(a: &Announcement) -> u64 {
    fnv(FNV0, &wire::serialize(&Message::Announcement(a.clone())))
}

#[derive(Clone, Debug)]
pub struct Delivery {
    pub from: NodeId,
    /// node-local time at delivery
    pub at: u64,
    /// announcer present in the address book at delivery (or it is a node announcement)
    pub announcer_known: bool,
    /// the gossip store held exactly this announcement right after the delivery
    pub stored_after: bool,
    /// generation of the node at delivery
    pub gen: u32,
    /// timestamp of the announcement
    pub ts: u64,
    /// a gossip prune has removed the row since (the announcement was older than gossip_max_age)
    pub pruned: bool,
}

#[derive(Default)]
pub struct Truth {
    /// every delivery of every announcement, by announcement id (kept across restarts: the gossip store is durable)
    pub deliveries: BTreeMap<u64, Vec<Delivery>>,
    /// signature validity by announcement id, as established by the harness
    pub authentic: BTreeMap<u64, bool>,
    /// per key: (largest timestamp emitted or stored so far for a foreign announcement, its id)
    pub emitted_max: BTreeMap<Key, (u64, u64)>,
    /// own announcements of this generation: id -> (timestamp, key), in order of first appearance
    pub own_seen: Vec<(u64, u64, Key)>,
    /// own announcements signed by earlier generations (they come back from the durable gossip store)
    pub own_earlier: BTreeSet<u64>,
    pub pending_reason: BTreeMap<NodeId, DisconnectReason>,
    /// the service's clock: the largest time it has been ticked with
    pub clock: u64,
    /// hook H4: timestamp of the cached inventory announcement and last timestamp handed out, as last observed
    pub cached_inv: Option<u64>,
    pub last_ts: u64,
}

impl Truth {
    pub fn new_generation(&mut self) {
        for (id, _, _) in self.own_seen.iter() {
            self.own_earlier.insert(*id);
        }
        self.own_seen.clear();
        self.pending_reason.clear();
        self.cached_inv = None;
        self.last_ts = 0;
    }
    pub fn epoch_started(&mut self, _peer: &NodeId) {}
    /// A prune may have removed rows older than `now - max_age`: forget what could be gone.
    pub fn on_wake(&mut self, now: u64, max_age: u64) {
        let cutoff = now.saturating_sub(max_age);
        self.emitted_max.retain(|_, (ts, _)| *ts >= cutoff);
        for ds in self.deliveries.values_mut() {
            for d in ds.iter_mut() {
                if d.ts < cutoff {
                    d.pruned = true;
                }
            }
        }
    }
}

impl<'a> Sim<'a> {
    pub fn describe(&self, m: &Message) -> String {
        match m {
            Message::Announcement(a) => {
                let (k, extra) = match &a.message {
                    AnnouncementMessage::Node(n) => ("node-ann", format!("seed={}", n.features.has(radicle::node::Features::SEED))),
                    AnnouncementMessage::Inventory(i) => ("inv-ann", format!("[{}{}]", i.inventory.iter().take(4).map(|r| self.rname(r)).collect::<Vec<_>>().join(","), if i.inventory.len() > 4 { format!(",..{}", i.inventory.len()) } else { String::new() })),
                    AnnouncementMessage::Refs(r) => ("refs-ann", format!("{} [{}]", self.rname(&r.rid), r.refs.iter().map(|x| self.name(&x.remote)).collect::<Vec<_>>().join(","))),
                };
                format!("{k}(by={} ts={} {extra} id={:08x})", self.name(&a.node), rel_ts(*a.timestamp()), ann_id(a) as u32)
            }
            Message::Subscribe(s) => format!("subscribe(since={} until={})", rel_ts(*s.since), rel_ts(*s.until)),
            Message::Ping(p) => format!("ping(ponglen={}, zeroes={})", p.ponglen, p.zeroes.len()),
            Message::Pong { zeroes } => format!("pong({})", zeroes.len()),
            Message::Info(_) => "info".to_string(),
        }
    }

    /// Independent signature check: the bytes the announcer must have signed.
    fn is_authentic(a: &Announcement) -> bool {
        let msg = wire::serialize(&a.message);
        a.node.verify(msg, &a.signature).is_ok()
    }

    /// A gossip message is about to be handed to node `node` (decoded from `consumed` bytes).
    pub fn on_deliver(&mut self, node: usize, from: &NodeId, msg: &Message, _consumed: usize) {
        if let Message::Announcement(a) = msg {
            let id = ann_id(a);
            let at = self.local_time(node).max(self.nodes[node].gt.clock);
            let known = match &a.message {
                AnnouncementMessage::Node(_) => true,
                _ => self.nodes[node].db.get(&a.node).ok().flatten().is_some(),
            };
            let auth = Self::is_authentic(a);
            let gt = &mut self.nodes[node].gt;
            let n = gt.deliveries.entry(id).or_default();
            if !n.is_empty() && n.iter().any(|d| d.from != *from) {
                self.res.hit("probe.gossip.same_ann_from_two_relayers");
            }
            let gen = self.nodes[node].gen;
            let gt = &mut self.nodes[node].gt;
            let n = gt.deliveries.entry(id).or_default();
            n.push(Delivery { from: *from, at, announcer_known: known, stored_after: false, gen, ts: *a.timestamp(), pruned: false });
            gt.authentic.insert(id, auth);
            if !auth {
                self.res.hit("probe.gossip.forged_delivered");
            }
            let bytes = wire::serialize(msg);
            if self.seen_anns.len() < 64 && !self.seen_anns.contains(&bytes) {
                self.seen_anns.push(bytes);
            }
        }
    }

    /// Node `node` emits `msg` towards `peer`.
    pub fn on_emit(&mut self, node: usize, peer: &NodeId, msg: &Message, trig: &Trigger) {
        let own = self.own.clone();
        let nid = self.nodes[node].nid;
        let tname = match trig {
            Trigger::Msg { kind, .. } => format!("on-{kind}"),
            Trigger::Command(c) => format!("command-{c}"),
            Trigger::Init => "init".into(),
            Trigger::Wake => "wake".into(),
            Trigger::Connected(_) => "connected".into(),
            Trigger::Disconnected(_) => "disconnected".into(),
            Trigger::Fetched => "fetched".into(),
            Trigger::Attempted => "attempted".into(),
        };
        self.res.trace.log(&format!("send-{}", msg_kind(msg)), format!("t={} n{node} -> {} {} [{tname}]", self.now - T0, self.name(peer), self.describe(msg)));

        // C15 (first sentence): what the node emits encodes within the limit and decodes to an equal message.
        match crate::kit::json::catch(|| wire::serialize(msg)) {
            Ok(bytes) => {
                if bytes.len() > u16::MAX as usize {
                    self.res.violate(&own, "C15", "C15/emit/oversized", format!("n{node} emitted a {} of {} bytes", msg_kind(msg), bytes.len()));
                }
                match wire::deserialize::<Message>(&bytes) {
                    Ok(m) if &m == msg => {
                        self.res.hit("probe.c15.emitted_roundtrips");
                    }
                    Ok(_) => self.res.violate(&own, "C15", &format!("C15/emit/roundtrip-differs/{}", msg_kind(msg)), format!("n{node} emitted a {} that decodes to a different message", msg_kind(msg))),
                    Err(e) => self.res.violate(&own, "C15", &format!("C15/emit/undecodable/{}", msg_kind(msg)), format!("n{node} emitted a {} that does not decode: {e}", msg_kind(msg))),
                }
            }
            Err(p) => {
                self.res.violate(&own, "C15", &format!("C15/emit/encode-panic/{}", p.class()), format!("n{node}: encoding {} panicked: {}", msg_kind(msg), p.message));
            }
        }

        let Message::Announcement(a) = msg else { return };
        let id = ann_id(a);
        let ts = *a.timestamp();
        let key = key_of(a);
        let bytes = wire::serialize(msg);
        if self.seen_anns.len() < 64 && !self.seen_anns.contains(&bytes) {
            self.seen_anns.push(bytes);
        }

        // C11: refs announcements about private repositories only to peers allowed to see them;
        // own inventory never lists private repositories.
        match &a.message {
            AnnouncementMessage::Refs(r) => {
                // privacy by ground truth: the node's own copy of the identity document if it holds the
                // repository, else the harness' record of how the repository was created
                let held = self.nodes[node].svc.as_ref().and_then(|s| s.get(r.rid).ok().flatten());
                let verdict: Option<(bool, bool)> = match &held {
                    Some(doc) => Some((doc.is_private(), doc.is_visible_to(&(*peer).into()))),
                    None => self.repos.iter().find(|x| x.rid == r.rid).map(|x| (x.private, !x.private || x.visible_to.contains(peer))),
                };
                if let Some((true, visible)) = verdict {
                    self.res.hit("probe.c11.private_refs_ann_emitted");
                    if held.is_none() {
                        self.res.hit("probe.c11.private_refs_ann_about_repository_not_held");
                    }
                    if !visible {
                        let whose = if a.node == nid { "own" } else { "foreign" };
                        let suffix = if held.is_some() { "" } else { "/repository-not-held" };
                        self.res.trace.log("leak", format!("LEAK n{node} -> {}: refs announcement about private {} ({whose}, {tname}{suffix})", self.name(peer), self.rname(&r.rid)));
                        self.res.violate(&own, "C11", &format!("C11/leak/refs/{whose}/{tname}{suffix}"), format!("n{node} sent a refs announcement (signed by {}) about private repository {} to {}, which is neither a delegate nor allow-listed; trigger: {tname}{}", self.name(&a.node), self.rname(&r.rid), self.name(peer), if held.is_some() { "" } else { " (the node does not hold the repository)" }));
                    }
                }
            }
            AnnouncementMessage::Inventory(inv) if a.node == nid => {
                for rid in inv.inventory.iter() {
                    let private = self.nodes[node].svc.as_ref().and_then(|s| s.get(*rid).ok().flatten()).map(|d| d.is_private()).unwrap_or(false);
                    if private {
                        // an announcement signed by an earlier process of this node, when the repository was still
                        // public, and replayed from the durable gossip store now
                        let old = self.nodes[node].gt.own_earlier.contains(&ann_id(a)) && self.nodes[node].made_private.contains(rid);
                        let suffix = if old { "/signed-while-public" } else { "" };
                        self.res.violate(&own, "C11", &format!("C11/leak/inventory/{tname}{suffix}"), format!("n{node} lists private repository {} in its own inventory announcement sent to {}{}", self.rname(rid), self.name(peer), if old { " (stored announcement, signed before the repository was made private)" } else { "" }));
                    }
                }
            }
            _ => {}
        }

        if a.node == nid {
            // C29: own announcements.
            let gt = &mut self.nodes[node].gt;
            if !gt.own_seen.iter().any(|(i, _, _)| *i == id) && !gt.own_earlier.contains(&id) {
                let mut clash = None;
                let mut backwards = None;
                for (oid, ots, okey) in gt.own_seen.iter() {
                    if *ots == ts && *oid != id {
                        clash = Some(*ots);
                    }
                    if *okey == key && *ots >= ts && *oid != id {
                        backwards = Some(*ots);
                    }
                }
                gt.own_seen.push((id, ts, key));
                if gt.own_seen.len() > 1 {
                    self.res.hit("probe.c29.second_own_announcement");
                }
                if let Some(t) = clash {
                    self.res.violate(&own, "C29", "C29/duplicate-timestamp", format!("n{node} signed two different announcements with timestamp {}", rel_ts(t)));
                } else if let Some(t) = backwards {
                    self.res.violate(&own, "C29", "C29/not-increasing", format!("n{node} signed a {} with timestamp {} after one with timestamp {}", msg_kind(msg), rel_ts(ts), rel_ts(t)));
                }
            }
            return;
        }

        // C10: relays of foreign announcements.
        let replay = matches!(trig, Trigger::Msg { from, kind: "subscribe" } if from == peer);
        let deliveries = self.nodes[node].gt.deliveries.get(&id).cloned().unwrap_or_default();
        self.res.hit("probe.c10.foreign_ann_emitted");
        if deliveries.is_empty() {
            self.res.violate(&own, "C10", "C10/relay/never-received", format!("n{node} sent {} which was never delivered to it", self.describe(msg)));
            return;
        }
        if self.nodes[node].gt.authentic.get(&id) == Some(&false) {
            self.res.violate(&own, "C10", &format!("C10/relay/forged/{}", msg_kind(msg)), format!("n{node} relayed {} whose signature does not verify", self.describe(msg)));
        }
        let max_delta = radicle_node::service::MAX_TIME_DELTA.as_millis() as u64;
        if !deliveries.iter().any(|d| ts <= d.at.saturating_add(max_delta)) {
            self.res.violate(&own, "C10", &format!("C10/relay/future/{}", msg_kind(msg)), format!("n{node} relayed {} although it was more than one hour ahead of local time at every delivery", self.describe(msg)));
        }
        if !deliveries.iter().any(|d| d.announcer_known) {
            self.res.violate(&own, "C10", &format!("C10/relay/unknown-announcer/{}", msg_kind(msg)), format!("n{node} relayed {} although its announcer had no known node announcement when it was delivered", self.describe(msg)));
        }
        match self.nodes[node].gt.emitted_max.get(&key).copied() {
            Some((mts, mid)) if mid != id && ts < mts => {
                self.res.violate(&own, "C10", &format!("C10/relay/stale/{}", msg_kind(msg)), format!("n{node} relayed {} after a newer one (ts {}) of the same kind from the same node", self.describe(msg), rel_ts(mts)));
            }
            Some((mts, mid)) if mid != id && ts == mts => {
                self.res.violate(&own, "C10", &format!("C10/relay/equal-timestamp/{}", msg_kind(msg)), format!("n{node} relayed two different announcements of the same kind from {} with the same timestamp {}", self.name(&a.node), rel_ts(ts)));
            }
            Some((mts, _)) if ts <= mts => {}
            _ => {
                self.nodes[node].gt.emitted_max.insert(key, (ts, id));
            }
        }
        if *peer == a.node {
            self.res.violate(&own, "C10", &format!("C10/echo/to-announcer/{}", msg_kind(msg)), format!("n{node} sent {} to its announcer", self.describe(msg)));
        }
        if !replay && deliveries.iter().any(|d| d.from == *peer) {
            let gen = self.nodes[node].gen;
            let mine: Vec<&Delivery> = deliveries.iter().filter(|d| d.from == *peer).collect();
            // what this run of the node knows counts first; deliveries to an earlier run only explain an echo after a restart
            let cur: Vec<&&Delivery> = mine.iter().filter(|d| d.gen == gen && !d.pruned).collect();
            let (how, restart) = if mine.iter().all(|d| d.pruned) {
                ("to-forgotten-relayer", "/after-prune")
            } else if cur.iter().any(|d| d.stored_after) {
                ("to-storing-relayer", "")
            } else if !cur.is_empty() {
                ("to-ignored-relayer", "")
            } else if mine.iter().any(|d| d.stored_after) {
                ("to-storing-relayer", "/after-restart")
            } else {
                ("to-ignored-relayer", "/after-restart")
            };
            self.res.violate(&own, "C10", &format!("C10/echo/{how}/{}{restart}", msg_kind(msg)), format!("n{node} relayed {} to {}, which had delivered it to n{node} ({how}{restart}; trigger {tname})", self.describe(msg), self.name(peer)));
        }
    }

    /// Right after a delivered announcement was handled: did the gossip store take it?
    pub fn is_stored(&self, node: usize, a: &Announcement) -> bool {
        use radicle_node::service::gossip::Store as _;
        let id = ann_id(a);
        let ts = a.timestamp();
        if *ts == 0 || ts >= radicle::node::Timestamp::MAX {
            return false;
        }
        let filter = radicle_node::service::filter::Filter::default();
        let found: Vec<Announcement> = match self.nodes[node].db.filtered(&filter, ts, ts + 1) {
            Ok(it) => it.filter_map(|x| x.ok()).collect(),
            Err(_) => Vec::new(),
        };
        found.iter().any(|x| ann_id(x) == id)
    }

    /// Own announcements already in the durable gossip store were signed by an earlier run of the node.
    pub fn note_stored_own(&mut self, node: usize) {
        use radicle_node::service::gossip::Store as _;
        let nid = self.nodes[node].nid;
        let filter = radicle_node::service::filter::Filter::default();
        let found: Vec<Announcement> = match self.nodes[node].db.filtered(&filter, radicle::node::Timestamp::MIN, radicle::node::Timestamp::MAX) {
            Ok(it) => it.filter_map(|x| x.ok()).collect(),
            Err(_) => Vec::new(),
        };
        for a in found {
            if a.node == nid {
                self.nodes[node].gt.own_earlier.insert(ann_id(&a));
            }
        }
    }

    /// `stored_after` means: this delivery is the one that put the announcement into the store.
    pub fn mark_stored(&mut self, node: usize, a: &Announcement, before: bool) {
        let after = self.is_stored(node, a);
        let id = ann_id(a);
        if let Some(d) = self.nodes[node].gt.deliveries.get_mut(&id).and_then(|v| v.last_mut()) {
            d.stored_after = after && !before;
        }
    }

    /// C15 (second sentence): the bytes of an inbound message that decode must re-encode to the same
    /// bytes (a node announcement without its optional trailing user agent excepted).
    pub fn check_reencoding(&mut self, node: usize, peer: &NodeId, msg: &Message, frame: &[u8]) {
        let own = self.own.clone();
        // the message is the payload at the end of the frame; its offset follows a header of
        // 4 (version) + 1..8 (stream id) + 1..8 (length) bytes
        let mut found: Option<&[u8]> = None;
        for hdr in 6..=20usize.min(frame.len()) {
            let p = &frame[hdr..];
            if let Ok(m2) = wire::deserialize::<Message>(p) {
                if &m2 == msg {
                    found = Some(p);
                    break;
                }
            }
        }
        let Some(p) = found else {
            // decodes only leniently (e.g. bytes after the message inside the payload): nothing to compare
            self.res.hit("probe.c15.inbound_not_strictly_decodable");
            return;
        };
        let re = wire::serialize(msg);
        if re == p {
            self.res.hit("probe.c15.inbound_reencodes_identically");
            return;
        }
        let node_ann_without_agent = matches!(msg, Message::Announcement(a) if matches!(a.message, AnnouncementMessage::Node(_))) && re.len() > p.len() && re.starts_with(p);
        if node_ann_without_agent {
            self.res.hit("probe.c15.node_announcement_without_user_agent");
            return;
        }
        self.res.trace.log("reencode-differs", format!("REENCODING DIFFERS n{node} <- {}: {} of {} bytes re-encodes to {} bytes", self.name(peer), msg_kind(msg), p.len(), re.len()));
        self.res.violate(&own, "C15", &format!("C15/inbound/reencoding-differs/{}", msg_kind(msg)), format!("n{node} decoded a {} from {} whose {} bytes re-encode to {} different bytes: a signature checked on the re-encoding is not a signature over what was sent", msg_kind(msg), self.name(peer), p.len(), re.len()));
    }

    /// C29 at the signing seam (hook H4): the counter behind own timestamps never decreases, and when the cached
    /// inventory announcement was re-signed during the last call its timestamp is one the counter handed out
    /// during that call (greater than everything signed before the call, and accounted for by the counter).
    pub fn check_timestamps(&mut self, node: usize) {
        let own = self.own.clone();
        let Some(svc) = self.nodes[node].svc.as_ref() else { return };
        let (inv, last) = svc.verif_timestamps();
        let (inv, last) = (*inv, *last);
        let prev_inv = self.nodes[node].gt.cached_inv;
        let prev_last = self.nodes[node].gt.last_ts;
        self.nodes[node].gt.last_ts = last;
        self.nodes[node].gt.cached_inv = Some(inv);
        let Some(prev_inv) = prev_inv else { return };
        if last < prev_last {
            self.res.violate(&own, "C29", "C29/counter-decreased", format!("n{node}: the last announcement timestamp went from {} to {}", rel_ts(prev_last), rel_ts(last)));
        }
        if inv == prev_inv {
            return;
        }
        self.res.hit("probe.c29.cached_inventory_resigned");
        if inv <= prev_last || inv > last {
            self.res.violate(&own, "C29", "C29/inventory-signed-with-stale-timestamp", format!("n{node} re-signed its inventory announcement with timestamp {}, which is not one of the timestamps handed out during that call ({} .. {}]", rel_ts(inv), rel_ts(prev_last), rel_ts(last)));
        }
    }

    /// The service of `node` emitted an `Io::Fetch` for `rid` from `remote`.
    pub fn check_fetch_emission(&mut self, node: usize, rid: &RepoId, remote: &NodeId, _trig: &Trigger) {
        if let Some((n, r, c, id)) = self.stale_watch {
            // the call that applied a stale result starts a fetch of the same repository (the current
            // fetch was retired) or another fetch with the same peer (its session accounting was cleared)
            if n == node && (r == *rid || self.tasks[id as usize].remote == *remote) {
                self.stale_watch = None;
                self.report_stale(node, id, c);
            }
        }
        let own = self.own.clone();
        let gen = self.nodes[node].gen;
        self.res.hit("probe.c16.fetch_emitted");
        // in flight = handed to a worker, not finished, on a connection that is still up
        let live: Vec<u64> = self.tasks.iter().filter(|t| t.node == node && t.gen == gen && t.rid == *rid && !t.done && !t.aborted && !t.dropped).map(|t| t.id).collect();
        if let Some(other) = live.first() {
            self.res.trace.log("double-fetch", format!("DOUBLE FETCH n{node} {}: task#{other} still running", self.rname(rid)));
            let class = if self.c16_tainted { "C16/two-fetches-in-flight/after-stale-result" } else { "C16/two-fetches-in-flight" };
            self.res.violate(&own, "C16", class, format!("n{node} started a fetch of {} from {} while task#{other} for the same repository is still running on a live connection", self.rname(rid), self.name(remote)));
        }
        let per_peer = self.tasks.iter().filter(|t| t.node == node && t.gen == gen && t.remote == *remote && !t.done && !t.aborted && !t.dropped).count();
        if per_peer + 1 > self.sw.fetch_concurrency {
            let class = if self.c16_tainted { "C16/per-peer-concurrency-exceeded/after-stale-result" } else { "C16/per-peer-concurrency-exceeded" };
            self.res.violate(&own, "C16", class, format!("n{node} has {} fetches in flight with {} (limit {})", per_peer + 1, self.name(remote), self.sw.fetch_concurrency));
        }
    }

    /// Before `fetched(task)`: which task is the service's current fetch of that repository?
    pub fn before_fetched(&mut self, node: usize, id: u64) -> Option<u64> {
        let gen = self.nodes[node].gen;
        let rid = self.tasks[id as usize].rid;
        self.tasks.iter().rev().find(|t| t.node == node && t.gen == gen && t.rid == rid && !t.retired).map(|t| t.id)
    }

    pub fn after_fetched(&mut self, node: usize, id: u64, current: Option<u64>) {
        let own = self.own.clone();
        let rid = self.tasks[id as usize].rid;
        match current {
            Some(c) if c == id => {
                self.stale_watch = None;
                self.tasks[id as usize].retired = true;
            }
            Some(c) => {
                // a stale result was delivered while another fetch of the same repository is current
                self.res.hit("probe.c16.stale_result_with_current_fetch");
                let still = self.nodes[node].svc.as_ref().map(|s| s.fetching().contains_key(&rid)).unwrap_or(true);
                let cur_live = { let t = &self.tasks[c as usize]; !t.done && !t.aborted && !t.dropped };
                if !still {
                    self.stale_watch = None;
                    self.report_stale(node, id, c);
                } else {
                    // the key is present: either the current fetch survived, or it was removed and a
                    // new fetch was started by the same call (its Io::Fetch is still in the outbox)
                    self.stale_watch = Some((node, rid, c, id));
                }
            }
            None => {
                self.res.hit("probe.c16.result_without_current_fetch");
            }
        }
    }

    pub fn report_stale(&mut self, node: usize, id: u64, c: u64) {
        let own = self.own.clone();
        let rid = self.tasks[id as usize].rid;
        let cur_live = { let t = &self.tasks[c as usize]; !t.done && !t.aborted && !t.dropped };
        self.c16_tainted = true;
        self.res.trace.log("stale-retire", format!("STALE RESULT n{node}: result of task#{id} retired the current fetch task#{c} of {}", self.rname(&rid)));
        self.res.violate(&own, "C16", if cur_live { "C16/stale-result-retires-running-fetch" } else { "C16/stale-result-retires-current-fetch" }, format!("n{node}: the late result of task#{id} was applied to the current fetch task#{c} of {} (which is {})", self.rname(&rid), if cur_live { "still running" } else { "no longer running" }));
        // keep the ground truth aligned with what the service now believes
        self.tasks[c as usize].retired = true;
    }

    /// After every call + drain: sync channel attachment, poll result channels, step invariants.
    pub fn after_call(&mut self, node: usize) {
        let own = self.own.clone();
        let gen = self.nodes[node].gen;
        let Some(svc) = self.nodes[node].svc.as_ref() else { return };
        // which operator channels are subscribed to which current fetch
        let mut attach: Vec<(u64, u64)> = Vec::new();
        for (rid, fs) in svc.fetching().iter() {
            if let Some(cur) = self.tasks.iter().rev().find(|t| t.node == node && t.gen == gen && t.rid == *rid && !t.retired) {
                for c in self.chans.iter().filter(|c| c.node == node && !c.got) {
                    if fs.subscribers.iter().any(|s| s.same_channel(&c.tx)) {
                        attach.push((cur.id, c.id));
                    }
                }
            }
        }
        // queue capacity and per-session accounting
        let mut h = FNV0;
        for (nid, sess) in svc.sessions().iter() {
            if sess.queue.len() > radicle_node::service::session::MAX_FETCH_QUEUE_SIZE {
                self.res.violate(&own, "C16", "C16/queue-capacity-exceeded", format!("n{node}: fetch queue of {} has {} entries", self.name(nid), sess.queue.len()));
            }
            let st = match &sess.state {
                radicle::node::State::Initial => 0u8,
                radicle::node::State::Attempted => 1,
                radicle::node::State::Connected { fetching, .. } => 2 + fetching.len() as u8,
                radicle::node::State::Disconnected { .. } => 9,
            };
            h = h.wrapping_add(fnv(FNV0, &[st, sess.queue.len() as u8, sess.subscribe.is_some() as u8, sess.link.is_inbound() as u8]));
        }
        h = fnv(h, &[svc.fetching().len() as u8, self.nodes[node].wire.len() as u8]);
        self.res.state(h);
        for (t, c) in attach {
            if self.tasks[t as usize].attached.insert(c) && self.tasks[t as usize].nrefs > 0 {
                // An operator's request is a full fetch; a fetch limited to announced refs is another
                // fetch, and its result is not the result of the operator's request.
                let class = if self.c16_tainted { "C16/operator-request-joined-partial-fetch/after-stale-result" } else { "C16/operator-request-joined-partial-fetch" };
                let rid = self.tasks[t as usize].rid;
                self.res.violate(&own, "C16", class, format!("n{node}: the operator's fetch request #{c} for {} was attached to task#{t}, a fetch of {} announced ref(s) only; its result will be reported as the result of the full fetch, which is never started", self.rname(&rid), self.tasks[t as usize].nrefs));
            }
        }
        // poll channels
        for ci in 0..self.chans.len() {
            if self.chans[ci].node != node || self.chans[ci].got {
                continue;
            }
            if let Ok(r) = self.chans[ci].rx.try_recv() {
                self.chans[ci].got = true;
                let cid = self.chans[ci].id;
                let got_task = task_of_result(&r);
                let attached_to: Vec<u64> = self.tasks.iter().filter(|t| t.attached.contains(&cid)).map(|t| t.id).collect();
                self.res.trace.log("fetch-result", format!("t={} n{node} operator channel#{cid} got {} (task {:?}; attached to {:?})", self.now - T0, if r.is_success() { "success" } else { "failure" }, got_task, attached_to));
                if let Some(g) = got_task {
                    self.res.hit("probe.c16.operator_got_task_result");
                    if !attached_to.contains(&g) {
                        let class = if self.c16_tainted { "C16/result-misattributed/after-stale-result" } else { "C16/result-misattributed" };
                        self.res.violate(&own, "C16", class, format!("n{node}: the operator's fetch request #{cid} for {} was answered with the result of task#{g}, but it had joined {:?}", self.rname(&self.chans[ci].rid), attached_to));
                    }
                }
            }
        }
    }

    /// End-of-run checks on durable state.
    pub fn finish(&mut self) {
        let own = self.own.clone();
        for i in 0..self.nodes.len() {
            if self.stop {
                break;
            }
            // C10 store oracle: everything foreign in the gossip store was delivered, authentic and fresh.
            use radicle_node::service::gossip::Store as _;
            let nid = self.nodes[i].nid;
            let filter = radicle_node::service::filter::Filter::default();
            let anns: Vec<Announcement> = match self.nodes[i].db.filtered(&filter, radicle::node::Timestamp::MIN, radicle::node::Timestamp::MAX) {
                Ok(it) => it.filter_map(|a| a.ok()).collect(),
                Err(_) => Vec::new(),
            };
            for a in anns {
                if a.node == nid {
                    continue;
                }
                self.res.hit("probe.c10.stored_foreign_checked");
                let id = ann_id(&a);
                let d = self.nodes[i].gt.deliveries.get(&id).cloned().unwrap_or_default();
                let m = Message::Announcement(a.clone());
                if d.is_empty() {
                    self.res.violate(&own, "C10", "C10/store/never-received", format!("n{i} stores {} which was never delivered to it", self.describe(&m)));
                    continue;
                }
                if self.nodes[i].gt.authentic.get(&id) == Some(&false) {
                    self.res.violate(&own, "C10", &format!("C10/store/forged/{}", msg_kind(&m)), format!("n{i} stores {} whose signature does not verify", self.describe(&m)));
                }
                let max_delta = radicle_node::service::MAX_TIME_DELTA.as_millis() as u64;
                if !d.iter().any(|x| *a.timestamp() <= x.at.saturating_add(max_delta)) {
                    self.res.violate(&own, "C10", &format!("C10/store/future/{}", msg_kind(&m)), format!("n{i} stores {} which was more than an hour ahead at every delivery", self.describe(&m)));
                }
                if !d.iter().any(|x| x.announcer_known) {
                    self.res.violate(&own, "C10", &format!("C10/store/unknown-announcer/{}", msg_kind(&m)), format!("n{i} stores {} from an announcer it did not know", self.describe(&m)));
                }
            }
        }
        let mut kinds = BTreeSet::new();
        for t in &self.tasks {
            kinds.insert((t.aborted, t.dropped));
        }
        self.res.steps = self.res.trace.count;
        self.res.sim_ms = self.now - T0;
        self.res.nontrivial = self.res.counters.get("probe.chunks_delivered").copied().unwrap_or(0) >= 3;
        let _ = (BTreeMap::<u8, u8>::new(), kinds);
    }
}

fn rel_ts(ts: u64) -> String {
    if ts >= T0 / 2 && ts < T0 * 2 {
        format!("T{:+}", ts as i64 - T0 as i64)
    } else {
        format!("{ts}")
    }
}

/// Which simulated task produced this operator-visible result?
pub fn task_of_result(r: &radicle::node::FetchResult) -> Option<u64> {
    match r {
        radicle::node::FetchResult::Success { updated, .. } => updated.iter().find_map(|u| {
            let name = match u {
                radicle::storage::RefUpdate::Created { name, .. } => name.to_string(),
                radicle::storage::RefUpdate::Updated { name, .. } => name.to_string(),
                radicle::storage::RefUpdate::Deleted { name, .. } => name.to_string(),
                radicle::storage::RefUpdate::Skipped { name, .. } => name.to_string(),
            };
            name.strip_prefix("refs/sim/task/").and_then(|n| n.parse().ok())
        }),
        // "disconnected: <reason>" is the service's own notice that the session went away, not a task result
        radicle::node::FetchResult::Failed { reason } if reason.starts_with("disconnected") => None,
        radicle::node::FetchResult::Failed { reason } => reason.split("task#").nth(1).and_then(|s| s.split(|c: char| !c.is_ascii_digit()).next()).and_then(|n| n.parse().ok()),
    }
}

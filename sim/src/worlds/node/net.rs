//! SimNet + SimWire + SimWorker: what sits between `Service` and the world.
//! The rules applied here are transcribed from `wire/protocol.rs` (Wire::next,
//! handle_transport_event(Data), worker_result, disconnect/handover_transport).

use std::collections::{BTreeMap, HashSet};
use std::sync::Arc;

use radicle::identity::RepoId;
use radicle::node::NodeId;
use radicle::storage::RefUpdate;
use radicle_node::service::io::Io;
use radicle_node::service::{session, DisconnectReason, Message, ServiceState as _};
use radicle_node::wire::verif::{Control, Frame, FrameData, StreamId};
use radicle_node::wire::Encode as _;
use radicle_node::worker::fetch::FetchResult;
use radicle_node::worker::FetchError;
use radicle_node::{Link, LocalTime};

use super::*;
use crate::gen;
use crate::kit::json::{catch, PanicInfo};

impl<'a> Sim<'a> {
    pub fn panic(&mut self, node: usize, trig: &Trigger, p: PanicInfo) {
        let t = match trig {
            Trigger::Msg { kind, .. } => format!("msg-{kind}"),
            Trigger::Command(c) => format!("command-{c}"),
            Trigger::Init => "init".into(),
            Trigger::Wake => "wake".into(),
            Trigger::Connected(_) => "connected".into(),
            Trigger::Disconnected(_) => "disconnected".into(),
            Trigger::Fetched => "fetched".into(),
            Trigger::Attempted => "attempted".into(),
        };
        self.res.trace.log("panic", format!("t={} n{node} PANIC on {t}: {} ({})", self.now - T0, p.message.lines().next().unwrap_or(""), p.file));
        let own = self.own.clone();
        // consequences of a late fetch result applied to the wrong fetch share one class, whatever event trips them
        let t = if (self.c16_tainted || self.stale_watch.is_some()) && p.message.contains("must not already be fetching") { "after-stale-result".to_string() } else { t };
        self.res.violate(&own, "C13", &format!("C13/panic/{t}/{}", p.class()), format!("node n{node} panicked while handling {t}: {}", p.message.lines().next().unwrap_or("")));
        if matches!(trig, Trigger::Fetched | Trigger::Command("fetch")) || p.message.to_lowercase().contains("fetch") {
            self.res.violate(&own, "C16", &format!("C16/panic/{t}/{}", p.class()), format!("node n{node} panicked while scheduling fetches ({t}): {}", p.message.lines().next().unwrap_or("")));
        }
        // the service is in an undefined state: the node is gone for the rest of the run
        self.nodes[node].svc = None;
        self.stop = true;
    }

    /// Call into the service of `node` (ticking its clock first), catching panics.
    pub fn call<T>(&mut self, node: usize, trig: &Trigger, f: impl FnOnce(&mut Svc) -> T) -> Option<T> {
        let lt = self.local_time(node);
        if lt > self.nodes[node].gt.clock {
            self.nodes[node].gt.clock = lt;
        }
        let svc = self.nodes[node].svc.as_mut()?;
        let r = catch(|| {
            svc.tick(LocalTime::from_millis(lt as u128), &Default::default());
            f(svc)
        });
        match r {
            Ok(v) => {
                self.check_timestamps(node);
                Some(v)
            }
            Err(p) => {
                self.panic(node, trig, p);
                None
            }
        }
    }

    /// Tear down the wire-level connection state of `node` towards `peer` (streams shut down,
    /// their tasks abort and report an error later).
    fn shutdown_streams(&mut self, node: usize, peer: &NodeId) {
        let mut aborted = Vec::new();
        if let Some(wp) = self.nodes[node].wire.get_mut(peer) {
            for (_, t) in std::mem::take(&mut wp.streams) {
                aborted.push(t);
            }
        }
        for t in aborted {
            let task = &mut self.tasks[t as usize];
            if !task.done {
                task.aborted = true;
                task.outcome = Outcome::ErrIo;
                self.res.hit("probe.task_aborted_by_disconnect");
            }
        }
    }

    /// Wire::disconnect: peer goes to Disconnecting; the service hears about it at handover.
    fn wire_disconnect(&mut self, node: usize, peer: NodeId, why: &'static str) {
        let gen = self.nodes[node].gen;
        let Some(wp) = self.nodes[node].wire.get(&peer) else { return };
        if !matches!(wp.state, WireState::Connected) {
            return;
        }
        let conn = wp.conn;
        self.shutdown_streams(node, &peer);
        if let Some(wp) = self.nodes[node].wire.get_mut(&peer) {
            wp.state = WireState::Disconnecting;
        }
        let d = 1 + self.ch.range(0, 40);
        self.schedule(d, Ev::Handover { node, gen, peer, conn });
        self.res.trace.log("wire-disconnect", format!("t={} n{node} wire disconnects {} ({why})", self.now - T0, self.name(&peer)));
        self.close_remote(conn, Ep::Real(node));
    }

    /// The other end of `conn` sees the connection die after a delay.
    pub fn close_remote(&mut self, conn: u64, from: Ep) {
        let Some(c) = self.conns.get_mut(&conn) else { return };
        if !c.alive {
            return;
        }
        c.alive = false;
        let other = if c.a == from { c.b } else { c.a };
        let from_nid = self.nid_of(from);
        match other {
            Ep::Real(j) => {
                let gen = self.nodes[j].gen;
                let d = 1 + self.ch.range(0, 200);
                self.schedule(d, Ev::Closed { node: j, gen, peer: from_nid, conn });
            }
            Ep::Puppet(p) => {
                if let Ep::Real(i) = from {
                    self.puppets[p].conns.remove(&i);
                }
            }
        }
    }

    /// Drain the outbox of `node` the way `Wire::next` does. `segs` maps outbox positions to
    /// the trigger that produced them: (trigger, number of Io items produced up to and including it).
    pub fn drain(&mut self, node: usize, segs: &[(Trigger, usize)]) {
        let mut pos = 0usize;
        loop {
            if self.stop {
                return;
            }
            let Some(svc) = self.nodes[node].svc.as_mut() else { return };
            let Some(io) = svc.next() else { break };
            pos += 1;
            let trig = segs.iter().find(|(_, upto)| pos <= *upto).map(|(t, _)| t.clone()).unwrap_or_else(|| segs.last().map(|(t, _)| t.clone()).unwrap_or(Trigger::Wake));
            if let Some((n, id)) = self.orphan_result {
                // A result that belongs to no fetch of the service (none was in `Service::fetching` for
                // that repository when it arrived) must be dropped: whatever the service does because
                // of it (announce, fetch, disconnect) is the result applied to a fetch that does not exist.
                let what = match &io {
                    Io::Write(..) => Some("wrote messages"),
                    Io::Fetch { .. } => Some("started a fetch"),
                    Io::Disconnect(..) => Some("disconnected a peer"),
                    Io::Connect(..) => Some("dialled a peer"),
                    Io::Wakeup(..) => None,
                };
                if let (true, Some(what)) = (n == node, what) {
                    let own = self.own.clone();
                    let rid = self.tasks[id as usize].rid;
                    self.res.trace.log("orphan-result", format!("ORPHAN RESULT n{node}: task#{id} of {} belongs to no fetch, the service {what}", self.rname(&rid)));
                    self.res.violate(&own, "C16", "C16/orphan-result-applied", format!("n{node}: the result of task#{id} arrived when the service had no fetch of {} in progress, and the service {what} because of it", self.rname(&rid)));
                    self.orphan_result = None;
                }
            }
            match io {
                Io::Write(peer, msgs) => self.io_write(node, peer, msgs, &trig),
                Io::Connect(peer, addr) => self.io_connect(node, peer, addr),
                Io::Disconnect(peer, reason) => {
                    self.res.trace.log("io-disconnect", format!("t={} n{node} Io::Disconnect {} ({})", self.now - T0, self.name(&peer), reason_kind(&reason)));
                    let connected = matches!(self.nodes[node].wire.get(&peer).map(|w| &w.state), Some(WireState::Connected));
                    if connected {
                        // remember the reason for the handover
                        self.nodes[node].gt.pending_reason.insert(peer, reason);
                        self.wire_disconnect(node, peer, "io");
                    }
                }
                Io::Wakeup(d) => {
                    let gen = self.nodes[node].gen;
                    self.schedule(d.as_millis() as u64, Ev::Wake { node, gen });
                }
                Io::Fetch { rid, remote, refs_at, .. } => self.io_fetch(node, rid, remote, refs_at.map(|r| r.len()).unwrap_or(0), &trig),
            }
        }
        self.after_call(node);
    }

    fn io_write(&mut self, node: usize, peer: NodeId, msgs: Vec<Message>, trig: &Trigger) {
        let (link, conn) = match self.nodes[node].wire.get(&peer) {
            Some(wp) if matches!(wp.state, WireState::Connected) => (wp.link, wp.conn),
            _ => {
                self.res.hit("probe.write_dropped_not_connected");
                return;
            }
        };
        let mut data = Vec::new();
        for msg in &msgs {
            self.on_emit(node, &peer, msg, trig);
            if self.stop {
                return;
            }
            let r = catch(|| {
                let mut buf = Vec::new();
                Frame::gossip(link, msg.clone()).encode(&mut buf).map(|_| buf)
            });
            match r {
                Ok(Ok(buf)) => data.extend_from_slice(&buf),
                Ok(Err(e)) => {
                    let own = self.own.clone();
                    self.res.violate(&own, "C15", "C15/encode/error", format!("n{node} could not encode {}: {e}", msg_kind(msg)));
                }
                Err(p) => {
                    let own = self.own.clone();
                    self.res.violate(&own, "C15", &format!("C15/encode/panic/{}", p.class()), format!("n{node} panicked encoding {}: {}", msg_kind(msg), p.message));
                    self.res.violate(&own, "C13", &format!("C13/panic/encode/{}", p.class()), format!("n{node} panicked encoding {}", msg_kind(msg)));
                }
            }
        }
        self.push_bytes(conn, Ep::Real(node), data);
    }

    /// Put bytes on the wire from `from` towards the other end of `conn`.
    pub fn push_bytes(&mut self, conn: u64, from: Ep, data: Vec<u8>) {
        let Some(c) = self.conns.get_mut(&conn) else { return };
        if !c.alive || data.is_empty() {
            return;
        }
        let (to, q, pending) = if c.a == from { (c.b, &mut c.ab, &mut c.pending_ab) } else { (c.a, &mut c.ba, &mut c.pending_ba) };
        if let Ep::Puppet(_) = to {
            return; // puppets do not read; what was sent has been checked at emission
        }
        q.extend(data);
        if !*pending {
            *pending = true;
            let d = 1 + self.ch.range(0, 80);
            self.schedule(d, Ev::Bytes { conn, to });
        }
    }

    fn io_connect(&mut self, node: usize, peer: NodeId, addr: radicle::node::Address) {
        if matches!(self.nodes[node].wire.get(&peer).map(|w| &w.state), Some(WireState::Connected)) {
            self.res.hit("probe.connect_to_connected_peer");
            return;
        }
        let trig = Trigger::Attempted;
        if self.call(node, &trig, |s| s.attempted(peer, addr.clone())).is_none() {
            return;
        }
        let gen = self.nodes[node].gen;
        let target = self.ep_of(&peer);
        self.res.trace.log("io-connect", format!("t={} n{node} dials {}", self.now - T0, self.name(&peer)));
        // immediate dial failure (fault), unknown target, partition, target down, or a link already exists
        let fail_now = self.sw.f_dial && self.ch.chance(1, 4);
        let ok = match target {
            None => false,
            Some(t) => {
                let exists = self.conns.values().any(|c| c.alive && ((c.a == Ep::Real(node) && c.b == t) || (c.b == Ep::Real(node) && c.a == t)));
                let up = match t {
                    Ep::Real(j) => self.nodes[j].svc.is_some(),
                    Ep::Puppet(_) => true,
                };
                !exists && up && !self.partitioned(Ep::Real(node), t) && !self.nodes[node].wire.contains_key(&peer)
            }
        };
        if fail_now {
            self.res.hit("fault.dial.immediate_failure");
            self.service_disconnected(node, peer, Link::Outbound, DisconnectReason::Dial(Arc::new(std::io::Error::from(std::io::ErrorKind::ConnectionRefused))));
            return;
        }
        if !ok {
            let d = 1 + self.ch.range(0, 6000);
            self.schedule(d, Ev::DialFail { node, gen, peer, transient: true });
            return;
        }
        let id = self.next_conn;
        self.next_conn += 1;
        self.conns.insert(id, Conn { id, a: Ep::Real(node), b: target.unwrap(), ab: Default::default(), ba: Default::default(), pending_ab: false, pending_ba: false, alive: true });
        self.nodes[node].dialing.insert(peer, id);
        let d = 1 + self.ch.range(0, 300);
        self.schedule(d, Ev::Established { conn: id });
    }

    fn io_fetch(&mut self, node: usize, rid: RepoId, remote: NodeId, nrefs: usize, trig: &Trigger) {
        let id = self.tasks.len() as u64;
        let gen = self.nodes[node].gen;
        let connected = matches!(self.nodes[node].wire.get(&remote).map(|w| &w.state), Some(WireState::Connected));
        let mut task = Task { id, node, gen, rid, remote, conn: 0, stream: 0, done: false, aborted: false, dropped: !connected, outcome: Outcome::Ok, retired: false, attached: Default::default(), nrefs };
        self.res.trace.log("io-fetch", format!("t={} n{node} Io::Fetch task#{id} {} from {} refs_at={nrefs}{}", self.now - T0, self.rname(&rid), self.name(&remote), if connected { "" } else { " (dropped: peer not connected at wire level)" }));
        self.check_fetch_emission(node, &rid, &remote, trig);
        if connected {
            let wp = self.nodes[node].wire.get_mut(&remote).unwrap();
            let stream = wp.next_stream;
            wp.next_stream += 1;
            wp.streams.insert(stream, id);
            task.conn = wp.conn;
            task.stream = stream;
            let link = wp.link;
            let conn = wp.conn;
            // outcome and latency of the worker
            let w = if self.sw.f_worker { [4u32, 3, 2] } else { [1, 0, 0] };
            task.outcome = match self.ch.weighted(&w) {
                0 => Outcome::Ok,
                1 => Outcome::ErrIo,
                _ => Outcome::Timeout,
            };
            let d = 1 + self.ch.range(0, if self.sw.f_worker { 20_000 } else { 2_000 });
            self.tasks.push(task);
            self.schedule(d, Ev::WorkerDone { task: id });
            let sid = StreamId::git(link).nth(stream).expect("stream id");
            let bytes = Frame::<Message>::control(link, Control::Open { stream: sid }).to_bytes();
            self.push_bytes(conn, Ep::Real(node), bytes);
        } else {
            self.res.hit("probe.fetch_dropped_by_wire");
            task.done = true;
            self.tasks.push(task);
        }
    }

    /// `service.disconnected` + drain.
    pub fn service_disconnected(&mut self, node: usize, peer: NodeId, link: Link, reason: DisconnectReason) {
        let trig = Trigger::Disconnected(peer);
        // ground truth: the session (if its link matches) loses its fetches
        let matches_link = self.nodes[node].svc.as_ref().and_then(|s| s.sessions().get(&peer).map(|s| s.link == link)).unwrap_or(false);
        self.res.trace.log("disconnected", format!("t={} n{node} <- disconnected({}, {:?}, {})", self.now - T0, self.name(&peer), link, reason_kind(&reason)));
        if self.call(node, &trig, |s| s.disconnected(peer, link, &reason)).is_none() {
            return;
        }
        if matches_link {
            for t in self.tasks.iter_mut() {
                if t.node == node && t.gen == self.nodes[node].gen && t.remote == peer && !t.retired {
                    t.retired = true;
                }
            }
        }
        self.drain(node, &[(trig, usize::MAX)]);
    }

    pub fn handle(&mut self, ev: Ev) {
        match ev {
            Ev::Wake { node, gen } => {
                if self.nodes[node].gen != gen || self.nodes[node].svc.is_none() {
                    return;
                }
                self.res.trace.log("wake", format!("t={} n{node} wake", self.now - T0));
                let (lt, age) = (self.local_time(node), self.nodes[node].config.limits.gossip_max_age.as_millis() as u64);
                self.nodes[node].gt.on_wake(lt, age);
                if self.call(node, &Trigger::Wake, |s| s.wake()).is_some() {
                    self.drain(node, &[(Trigger::Wake, usize::MAX)]);
                }
            }
            Ev::Bytes { conn, to } => self.deliver_bytes(conn, to),
            Ev::Established { conn } => self.established(conn),
            Ev::DialFail { node, gen, peer, transient } => {
                if self.nodes[node].gen != gen || self.nodes[node].svc.is_none() {
                    return;
                }
                self.res.hit("probe.dial_failed");
                let reason = if transient {
                    DisconnectReason::connection()
                } else {
                    DisconnectReason::Dial(Arc::new(std::io::Error::from(std::io::ErrorKind::ConnectionRefused)))
                };
                self.service_disconnected(node, peer, Link::Outbound, reason);
            }
            Ev::Handover { node, gen, peer, conn } => {
                if self.nodes[node].gen != gen {
                    return;
                }
                let Some(wp) = self.nodes[node].wire.get(&peer) else { return };
                if wp.conn != conn {
                    return;
                }
                let link = wp.link;
                self.nodes[node].wire.remove(&peer);
                let reason = self.nodes[node].gt.pending_reason.remove(&peer).unwrap_or(DisconnectReason::Session(session::Error::Misbehavior));
                self.service_disconnected(node, peer, link, reason);
            }
            Ev::Closed { node, gen, peer, conn } => {
                if self.nodes[node].gen != gen {
                    return;
                }
                // connection attempt that never completed
                if self.nodes[node].dialing.get(&peer) == Some(&conn) {
                    self.nodes[node].dialing.remove(&peer);
                    self.service_disconnected(node, peer, Link::Outbound, DisconnectReason::connection());
                    return;
                }
                let Some(wp) = self.nodes[node].wire.get(&peer) else { return };
                if wp.conn != conn {
                    return;
                }
                // reactor::Error::TransportDisconnect: peer removed, streams shut down, service told at once
                let link = wp.link;
                self.shutdown_streams(node, &peer);
                self.nodes[node].wire.remove(&peer);
                self.nodes[node].gt.pending_reason.remove(&peer);
                self.service_disconnected(node, peer, link, DisconnectReason::connection());
            }
            Ev::WorkerDone { task } => self.worker_done(task),
            Ev::Start { node } => {
                if self.nodes[node].svc.is_none() && !self.stop {
                    self.nodes[node].gen += 1;
                    self.start_node(node);
                }
            }
        }
    }

    fn established(&mut self, conn: u64) {
        let Some(c) = self.conns.get(&conn) else { return };
        if !c.alive {
            return;
        }
        let (a, b) = (c.a, c.b);
        // initiator side
        for (me, other, link) in [(a, b, Link::Outbound), (b, a, Link::Inbound)] {
            let Ep::Real(i) = me else { continue };
            if self.nodes[i].svc.is_none() {
                self.close_remote(conn, me);
                return;
            }
            let peer = self.nid_of(other);
            let addr = match other {
                Ep::Real(j) => self.nodes[j].addr.clone(),
                Ep::Puppet(j) => self.puppets[j].addr.clone(),
            };
            if link == Link::Outbound {
                if self.nodes[i].dialing.get(&peer) != Some(&conn) {
                    continue;
                }
                self.nodes[i].dialing.remove(&peer);
            } else {
                // listener: rate limiting / inbound limits
                let ip = match &addr.host {
                    radicle::node::HostName::Ip(ip) => *ip,
                    _ => std::net::IpAddr::from([127, 0, 0, 1]),
                };
                let trig = Trigger::Connected(peer);
                match self.call(i, &trig, |s| s.accepted(ip)) {
                    Some(true) => {}
                    Some(false) => {
                        self.res.hit("probe.inbound_rejected");
                        self.close_remote(conn, me);
                        return;
                    }
                    None => return,
                }
                if self.nodes[i].wire.contains_key(&peer) {
                    // conflicting connection: the stub refuses the newer one (see DESIGN: not modelled)
                    self.res.hit("probe.conflicting_connection_refused");
                    self.close_remote(conn, me);
                    return;
                }
            }
            self.nodes[i].wire.insert(peer, WirePeer { link, conn, state: WireState::Connected, inbox: radicle_node::deserializer::Deserializer::new(1024), shadow: Vec::new(), streams: BTreeMap::new(), next_stream: 0 });
            self.nodes[i].gt.epoch_started(&peer);
            let trig = Trigger::Connected(peer);
            self.res.trace.log("connected", format!("t={} n{i} <- connected({}, {:?})", self.now - T0, self.name(&peer), link));
            if self.call(i, &trig, |s| s.connected(peer, addr.clone(), link)).is_none() {
                return;
            }
            self.drain(i, &[(trig, usize::MAX)]);
        }
        if let Ep::Puppet(p) = a {
            if let Ep::Real(i) = b {
                self.puppets[p].conns.insert(i, conn);
            }
        }
        if let Ep::Puppet(p) = b {
            if let Ep::Real(i) = a {
                self.puppets[p].conns.insert(i, conn);
            }
        }
    }

    fn deliver_bytes(&mut self, conn: u64, to: Ep) {
        let Ep::Real(node) = to else { return };
        let Some(c) = self.conns.get_mut(&conn) else { return };
        let from = if c.a == to { c.b } else { c.a };
        let (q, pending) = if c.b == to { (&mut c.ab, &mut c.pending_ab) } else { (&mut c.ba, &mut c.pending_ba) };
        *pending = false;
        if q.is_empty() {
            return;
        }
        // chunk size: 0 => everything that is there
        let n = match self.ch.weighted(&[6, 2, 1, 1]) {
            0 => q.len(),
            1 => 1 + self.ch.pick_usize(q.len()),
            2 => 1.min(q.len()),
            _ => (1 + self.ch.pick_usize(64)).min(q.len()),
        };
        let chunk: Vec<u8> = q.drain(..n).collect();
        let more = !q.is_empty();
        let peer = self.nid_of(from);
        let ok = matches!(self.nodes[node].wire.get(&peer), Some(wp) if wp.conn == conn && matches!(wp.state, WireState::Connected));
        if more && ok {
            if let Some(c) = self.conns.get_mut(&conn) {
                if c.b == to { c.pending_ab = true } else { c.pending_ba = true }
            }
            let d = 1 + self.ch.range(0, 30);
            self.schedule(d, Ev::Bytes { conn, to });
        }
        if !ok || self.nodes[node].svc.is_none() {
            self.res.hit("probe.bytes_dropped_unconnected");
            return;
        }
        self.res.hit("probe.chunks_delivered");
        if chunk.len() < n.max(1) || more {
            self.res.hit("fault.net.fragmented_delivery");
        }
        // Wire::handle_transport_event(Data)
        let overflow = self.nodes[node].wire.get_mut(&peer).unwrap().inbox.input(&chunk).is_err();
        if !overflow {
            self.nodes[node].wire.get_mut(&peer).unwrap().shadow.extend_from_slice(&chunk);
        }
        if overflow {
            self.res.hit("probe.inbox_overflow");
            self.nodes[node].gt.pending_reason.insert(peer, DisconnectReason::Session(session::Error::Misbehavior));
            self.wire_disconnect(node, peer, "inbox overflow");
            return;
        }
        let mut segs: Vec<(Trigger, usize)> = Vec::new();
        loop {
            let wp = self.nodes[node].wire.get_mut(&peer).unwrap();
            let before = wp.inbox.len();
            let r = catch(|| wp.inbox.deserialize_next());
            let r = match r {
                Ok(r) => r,
                Err(p) => {
                    self.panic(node, &Trigger::Msg { from: peer, kind: "bytes" }, p);
                    return;
                }
            };
            match r {
                Ok(Some(frame)) => {
                    let consumed = before - self.nodes[node].wire.get(&peer).unwrap().inbox.len();
                    let frame_bytes: Vec<u8> = {
                        let wp = self.nodes[node].wire.get_mut(&peer).unwrap();
                        let k = consumed.min(wp.shadow.len());
                        wp.shadow.drain(..k).collect()
                    };
                    match frame.data {
                        FrameData::Gossip(msg) => {
                            let kind = msg_kind(&msg);
                            self.check_reencoding(node, &peer, &msg, &frame_bytes);
                            self.on_deliver(node, &peer, &msg, consumed);
                            let trig = Trigger::Msg { from: peer, kind };
                            self.res.trace.log(&format!("recv-{kind}"), format!("t={} n{node} <- {} {}", self.now - T0, self.name(&peer), self.describe(&msg)));
                            let ann = match &msg {
                                Message::Announcement(a) => Some((a.clone(), self.is_stored(node, a))),
                                _ => None,
                            };
                            if self.call(node, &trig, |s| s.received_message(peer, msg)).is_none() {
                                return;
                            }
                            if let Some((a, before)) = ann {
                                self.mark_stored(node, &a, before);
                            }
                            let len = self.nodes[node].svc.as_mut().map(|s| s.outbox().len()).unwrap_or(0);
                            segs.push((trig, len));
                        }
                        FrameData::Control(Control::Open { .. }) => {
                            self.res.hit("probe.responder_stream_opened");
                        }
                        FrameData::Control(Control::Close { stream }) => {
                            // an early close from the remote unregisters the stream: its worker fails
                            let n: u64 = u64::from(stream) >> 3;
                            let wp = self.nodes[node].wire.get_mut(&peer).unwrap();
                            if stream.link() == wp.link {
                                if let Some(t) = wp.streams.remove(&n) {
                                    // its channels are closed: the worker fails as soon as it touches them
                                    self.tasks[t as usize].outcome = Outcome::ErrIo;
                                    self.tasks[t as usize].aborted = true;
                                    self.res.hit("probe.stream_closed_by_remote");
                                }
                            }
                        }
                        FrameData::Control(Control::Eof { .. }) | FrameData::Git(_) => {
                            self.res.hit("probe.git_or_eof_frame");
                        }
                    }
                }
                Ok(None) => break,
                Err(e) => {
                    self.res.trace.log("decode-error", format!("t={} n{node} decode error from {}: {}", self.now - T0, self.name(&peer), e));
                    self.res.hit("probe.decode_error_disconnect");
                    self.nodes[node].gt.pending_reason.insert(peer, DisconnectReason::Session(session::Error::Misbehavior));
                    // the service still gets the messages decoded so far drained first (same handler)
                    self.wire_disconnect(node, peer, "decode error");
                    break;
                }
            }
        }
        if segs.is_empty() {
            segs.push((Trigger::Msg { from: peer, kind: "bytes" }, usize::MAX));
        }
        self.drain(node, &segs);
    }

    fn worker_done(&mut self, id: u64) {
        let (node, gen, rid, remote, conn, stream, aborted, outcome) = {
            let t = &self.tasks[id as usize];
            (t.node, t.gen, t.rid, t.remote, t.conn, t.stream, t.aborted, t.outcome.clone())
        };
        if self.tasks[id as usize].done {
            return;
        }
        self.tasks[id as usize].done = true;
        if self.nodes[node].gen != gen || self.nodes[node].svc.is_none() {
            return; // the process that ran this worker is gone
        }
        // Wire::worker_result
        let state = self.nodes[node].wire.get(&remote).map(|w| (matches!(w.state, WireState::Connected), w.conn));
        let Some((true, cur_conn)) = state else {
            self.res.hit("probe.worker_result_dropped_peer_not_connected");
            self.res.trace.log("worker-dropped", format!("t={} n{node} result of task#{id} dropped by wire (peer not connected)", self.now - T0));
            return;
        };
        if cur_conn == conn {
            let wp = self.nodes[node].wire.get_mut(&remote).unwrap();
            if wp.streams.remove(&stream).is_some() {
                let link = wp.link;
                let sid = StreamId::git(link).nth(stream).expect("stream id");
                let bytes = Frame::<Message>::control(link, Control::Close { stream: sid }).to_bytes();
                self.push_bytes(conn, Ep::Real(node), bytes);
            }
        } else {
            self.res.hit("probe.fetch.result_after_reconnect");
        }
        let outcome = if aborted { Outcome::ErrIo } else { outcome };
        // the real worker refuses to fetch a repository that is not seeded (`Allowed::from_config` fails with a
        // policy error before anything is written)
        let seeded = self.nodes[node].svc.as_ref().map(|s| s.policies().is_seeding(&rid).unwrap_or(false)).unwrap_or(false);
        let outcome = if matches!(outcome, Outcome::Ok) && !seeded {
            self.res.hit("probe.worker.fetch_refused_not_seeded");
            Outcome::ErrIo
        } else {
            outcome
        };
        let result: Result<FetchResult, FetchError> = match outcome {
            Outcome::Ok => {
                // the worker wrote to storage before reporting
                let doc = self.repos.iter().find(|r| r.rid == rid).map(|r| r.doc.clone());
                match doc {
                    Some(doc) => {
                        let clone = !self.nodes[node].storage.repos.contains_key(&rid);
                        let signer = self.signer_of(&remote);
                        let repo = self.nodes[node].storage.repos.entry(rid).or_insert_with(|| radicle::test::storage::MockRepository::new(rid, doc.clone()));
                        let mut namespaces = HashSet::new();
                        if let Some(signer) = signer {
                            let sr = super::setup::signed_refs_at(&signer, repo, 0x7A5C ^ id);
                            repo.remotes.insert(remote, sr);
                            namespaces.insert(remote);
                        }
                        let docat = repo.doc.clone();
                        let repo2 = repo.clone();
                        if let Some(svc) = self.nodes[node].svc.as_mut() {
                            svc.storage_mut().repos.insert(rid, repo2);
                        }
                        let name = radicle::git::RefString::try_from(format!("refs/sim/task/{id}")).expect("refname");
                        Ok(FetchResult { updated: vec![RefUpdate::Created { name, oid: gen::oid_of(id) }], namespaces, clone, doc: docat })
                    }
                    None => Err(FetchError::Io(std::io::Error::new(std::io::ErrorKind::NotFound, format!("sim task#{id} repository not found")))),
                }
            }
            Outcome::ErrIo => Err(FetchError::Io(std::io::Error::new(std::io::ErrorKind::BrokenPipe, format!("sim task#{id} failed")))),
            Outcome::Timeout => Err(FetchError::Io(std::io::Error::new(std::io::ErrorKind::TimedOut, format!("sim task#{id} timed out")))),
        };
        self.res.trace.log("fetched", format!("t={} n{node} <- fetched({}, {}, task#{id} {})", self.now - T0, self.rname(&rid), self.name(&remote), if result.is_ok() { "ok" } else { "err" }));
        let pre = self.before_fetched(node, id);
        if let Some(c) = pre {
            if c != id {
                self.stale_watch = Some((node, rid, c, id));
            }
        }
        // the service's own view: does it have a fetch of this repository at all?
        let had_entry = self.nodes[node].svc.as_ref().map(|s| s.fetching().contains_key(&rid)).unwrap_or(true);
        if self.call(node, &Trigger::Fetched, |s| s.fetched(rid, remote, result)).is_none() {
            return;
        }
        self.after_fetched(node, id, pre);
        if !had_entry {
            self.res.hit("probe.c16.orphan_result_delivered");
            self.orphan_result = Some((node, id));
        }
        self.drain(node, &[(Trigger::Fetched, usize::MAX)]);
        self.orphan_result = None;
        self.stale_watch = None;
    }

    pub fn signer_of(&self, nid: &NodeId) -> Option<radicle::node::device::Device<radicle::crypto::test::signer::MockSigner>> {
        if let Some(n) = self.nodes.iter().find(|n| n.nid == *nid) {
            return Some(n.signer.clone());
        }
        if let Some(p) = self.puppets.iter().find(|p| p.nid == *nid) {
            return Some(p.signer.clone());
        }
        self.extra_keys.iter().find(|k| k.public_key() == nid).cloned()
    }
}

pub fn reason_kind(r: &DisconnectReason) -> &'static str {
    match r {
        DisconnectReason::Dial(_) => "dial",
        DisconnectReason::Connection(_) => "connection",
        DisconnectReason::Fetch(_) => "fetch",
        DisconnectReason::Session(session::Error::InvalidTimestamp(_)) => "session:invalid-timestamp",
        DisconnectReason::Session(session::Error::Misbehavior) => "session:misbehavior",
        DisconnectReason::Session(session::Error::Timeout) => "session:timeout",
        DisconnectReason::Session(_) => "session",
        DisconnectReason::Conflict => "conflict",
        DisconnectReason::SelfConnection => "self",
        DisconnectReason::Command => "command",
    }
}

pub fn msg_kind(m: &Message) -> &'static str {
    use radicle_node::service::message::AnnouncementMessage as AM;
    match m {
        Message::Subscribe(_) => "subscribe",
        Message::Announcement(a) => match a.message {
            AM::Node(_) => "node-ann",
            AM::Inventory(_) => "inv-ann",
            AM::Refs(_) => "refs-ann",
        },
        Message::Info(_) => "info",
        Message::Ping(_) => "ping",
        Message::Pong { .. } => "pong",
    }
}

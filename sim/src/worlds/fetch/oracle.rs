//! State-based oracles of world B (independent of the code under test: libgit2 reads,
//! own parser for the signed-refs text, the Ed25519 primitive).

use std::collections::{BTreeMap, BTreeSet};
use std::str::FromStr;

use radicle::crypto::PublicKey;
use radicle::git::Oid;
use radicle::identity::RepoId;
use radicle::storage::{ReadRepository, ReadStorage, WriteRepository, WriteStorage};

use super::{NsSnap, Snap, World};

/// Is namespace `ns` of `repo` exactly what its signed refs say, validly signed and bound to `rid`?
pub fn validity(repo: &radicle::storage::git::Repository, rid: &RepoId, ns: &str, refs: &NsSnap) -> Result<(), &'static str> {
    signed(repo, rid, ns, refs, false).map(|_| ())
}

/// The verified signed-refs map of a namespace (`map_only`), or the full validity check.
pub fn signed(repo: &radicle::storage::git::Repository, rid: &RepoId, ns: &str, refs: &NsSnap, map_only: bool) -> Result<BTreeMap<String, Oid>, &'static str> {
    let raw = &repo.backend;
    let Some(sig_oid) = refs.get("refs/rad/sigrefs") else { return Err("no-sigrefs") };
    let commit = raw.find_commit(**sig_oid).map_err(|_| "sigrefs-not-a-commit")?;
    let tree = commit.tree().map_err(|_| "sigrefs-no-tree")?;
    let blob = |name: &str| -> Option<Vec<u8>> {
        let e = tree.get_name(name)?;
        let b = raw.find_blob(e.id()).ok()?;
        Some(b.content().to_vec())
    };
    let text = blob("refs").ok_or("sigrefs-without-refs-blob")?;
    let sig = blob("signature").ok_or("sigrefs-without-signature-blob")?;
    // own parser
    let mut map: BTreeMap<String, Oid> = BTreeMap::new();
    for line in String::from_utf8(text).map_err(|_| "refs-blob-not-utf8")?.lines() {
        let (oid, name) = line.split_once(' ').ok_or("refs-blob-malformed")?;
        let oid = Oid::from_str(oid).map_err(|_| "refs-blob-malformed")?;
        if oid.is_zero() {
            continue;
        }
        map.insert(name.to_string(), oid);
    }
    let mut canonical = String::new();
    for (name, oid) in &map {
        canonical.push_str(&format!("{oid} {name}\n"));
    }
    let key = PublicKey::from_str(ns).map_err(|_| "namespace-not-a-key")?;
    let sig = radicle::crypto::Signature::try_from(sig.as_slice()).map_err(|_| "signature-malformed")?;
    key.verify(canonical.as_bytes(), &sig).map_err(|_| "signature-invalid")?;
    if map_only {
        return Ok(map);
    }
    // names this repository's identity
    let root = map.get("refs/rad/root").ok_or("no-identity-root")?;
    let doc = repo.identity_doc_at(*root).map_err(|_| "identity-root-not-an-identity")?;
    if RepoId::from(doc.blob) != *rid {
        return Err("identity-root-of-other-repository");
    }
    // exactly the listed references, each at the listed object
    for (name, oid) in &map {
        match refs.get(name) {
            None => return Err("signed-ref-missing"),
            Some(o) if o != oid => return Err("ref-differs-from-signed-target"),
            _ => {}
        }
    }
    for name in refs.keys() {
        if name != "refs/rad/sigrefs" && !map.contains_key(name) {
            return Err("unsigned-ref-present");
        }
    }
    Ok(map)
}

impl<'a> World<'a> {
    fn delegates(&self) -> Vec<usize> {
        (0..self.actors.len()).filter(|i| self.actors[*i].delegate).collect()
    }

    pub fn check_fetch(&mut self, before: &Snap, after: &Snap, outcome: &str, faulty: bool) {
        let own = self.own.clone();
        let repo = match self.lst.repository(self.rid) {
            Ok(r) => r,
            Err(_) => {
                if !before.is_empty() {
                    self.res.violate(&own, "C02", "C02/repository-vanished", format!("the repository disappeared from local storage ({outcome})"));
                }
                return;
            }
        };
        let lnid = self.actors[self.l].nid.to_string();
        let empty = NsSnap::new();
        let mut names: BTreeSet<&String> = before.keys().collect();
        names.extend(after.keys());
        let mut changed = 0;
        for ns in names {
            if ns.is_empty() {
                continue;
            }
            let b = before.get(ns).unwrap_or(&empty);
            let a = after.get(ns).unwrap_or(&empty);
            if a == b {
                continue;
            }
            changed += 1;
            let who = self.aname(ns);
            let t = self.actors.iter().position(|x| x.nid.to_string() == *ns).and_then(|i| self.tampered.get(&i).copied()).unwrap_or("none");
            let diff: Vec<String> = a.iter().filter(|(k, v)| b.get(*k) != Some(v)).map(|(k, _)| format!("+{k}")).chain(b.keys().filter(|k| !a.contains_key(*k)).map(|k| format!("-{k}"))).collect();
            self.res.trace.log("ns-changed", format!("namespace {who} changed ({} -> {} refs: {}), server tampering: {t}", b.len(), a.len(), diff.join(" ")));
            if *ns == lnid && !b.is_empty() {
                self.res.violate(&own, "C01", "C01/own-namespace-changed", format!("the fetch changed the local node's own namespace ({outcome})"));
                continue;
            }
            if a.is_empty() {
                self.res.violate(&own, "C01", "C01/changed-namespace/removed", format!("the fetch removed namespace {who} ({outcome}; tampering {t})"));
                continue;
            }
            match validity(&repo, &self.rid, ns, a) {
                Ok(()) => {
                    self.res.hit("probe.c01.changed_namespace_valid");
                }
                Err(reason) => {
                    self.res.trace.log("invalid-ns", format!("INVALID namespace {who} after {outcome}: {reason}"));
                    self.res.violate(&own, "C01", &format!("C01/changed-namespace/{reason}"), format!("after the fetch ({outcome}) namespace {who} was changed but is not what its signed refs say: {reason} (server tampering: {t}; transport fault: {faulty})"));
                }
            }
        }
        if changed > 0 {
            self.res.hit("probe.fetch.changed_something");
        }
        // tampered namespaces that were left alone
        for (i, t) in self.tampered.clone() {
            let ns = self.actors[i].nid.to_string();
            if before.get(&ns) == after.get(&ns) {
                self.res.hit("probe.c01.tampered_namespace_untouched");
                let _ = t;
            }
        }
        // C02 (i): delegate sigrefs never move backwards or sideways
        for d in self.delegates() {
            let ns = self.actors[d].nid.to_string();
            let Some(old) = before.get(&ns).and_then(|m| m.get("refs/rad/sigrefs")) else { continue };
            let who = self.actors[d].name.clone();
            match after.get(&ns).and_then(|m| m.get("refs/rad/sigrefs")) {
                None => self.res.violate(&own, "C02", "C02/delegate-sigrefs-removed", format!("the fetch ({outcome}) removed the signed refs of delegate {who}")),
                Some(new) if new == old => {}
                Some(new) => {
                    let fwd = repo.backend.graph_descendant_of(**new, **old).unwrap_or(false);
                    if fwd {
                        self.res.hit("probe.c02.delegate_sigrefs_advanced");
                    } else {
                        let back = repo.backend.graph_descendant_of(**old, **new).unwrap_or(false);
                        let class = if back { "C02/delegate-sigrefs-rewound" } else { "C02/delegate-sigrefs-diverged" };
                        self.res.violate(&own, "C02", class, format!("the fetch ({outcome}) moved the signed refs of delegate {who} {}", if back { "backwards" } else { "onto a diverging history" }));
                    }
                }
            }
        }
        match outcome {
            "success" => {
                // C02 (ii): enough delegates are actually valid afterwards
                let l_delegate = self.actors[self.l].delegate;
                let need = self.threshold.saturating_sub(l_delegate as usize);
                let mut valid = 0;
                let server_repo = self.server_repo();
                let server = Self::snapshot(&server_repo.backend);
                for d in self.delegates() {
                    let ns = self.actors[d].nid.to_string();
                    if d == self.l {
                        // the local node never counts: the bar was lowered by one on its behalf
                        continue;
                    }
                    if let Some(a) = after.get(&ns) {
                        // a delegate counts if its namespace passes every check except (possibly) the identity-root entry,
                        // which `SignedRefs::verify` does not yet require (tracked under C01) ...
                        let stored_valid = matches!(validity(&repo, &self.rid, &ns, a), Ok(()) | Err("no-identity-root"));
                        // ... and if what the serving peer offered for it in this fetch was not invalid (the quantifier's
                        // per-delegate state "invalid"): a delegate for whom garbage is offered does not have valid signed
                        // refs in this fetch, even if an older valid copy is stored. Only decidable by the harness when
                        // every namespace is requested (no refs_at).
                        // What the client can see of an offer: whether signed refs exist at all, and a special ref
                        // `rad/id` (always requested) that the signed refs do not list; everything the signed refs
                        // list is requested by the signed object ids, so refs moved, added or deleted by the serving
                        // peer are invisible to it.
                        let offered_invalid = self.last_mode == 0
                            && server
                                .get(&ns)
                                .map(|o| match signed(&server_repo, &self.rid, &ns, o, true) {
                                    Err("no-sigrefs") => !o.is_empty(),
                                    Err(_) => false,
                                    Ok(map) => o.contains_key("refs/rad/id") && !map.contains_key("refs/rad/id"),
                                })
                                .unwrap_or(false);
                        if stored_valid && offered_invalid {
                            self.res.hit("probe.c02.stored_valid_but_offered_invalid");
                        }
                        if stored_valid && !offered_invalid {
                            valid += 1;
                        }
                    }
                }
                if valid < need {
                    self.res.violate(&own, "C02", "C02/success-below-threshold", format!("the fetch reported success with {valid} valid delegate namespace(s) other than the local node; threshold {} (local node delegate: {l_delegate})", self.threshold));
                } else {
                    self.res.hit("probe.c02.success_with_threshold");
                    if valid == need {
                        self.res.hit("probe.c02.success_exactly_at_threshold");
                    }
                }
            }
            "failed" => {
                if before != after {
                    let diff: Vec<String> = after.iter().filter(|(k, v)| before.get(*k) != Some(v)).map(|(k, _)| self.aname(k)).collect();
                    self.res.violate(&own, "C02", "C02/failed-but-storage-changed", format!("the fetch reported failure (threshold not met) but changed local storage: {diff:?}"));
                } else {
                    self.res.hit("probe.c02.failed_left_storage_unchanged");
                }
            }
            _ => {}
        }
    }

    /// What `worker::fetch` does after a successful fetch: identity head, then the canonical head (C03).
    pub fn after_success(&mut self) {
        let own = self.own.clone();
        let Ok(repo) = self.lst.repository(self.rid) else { return };
        if repo.set_identity_head().is_err() {
            return;
        }
        let result = repo.set_head();
        // tips of the delegates' default branch in the post state
        let snap = Self::snapshot(&repo.backend);
        let mut tips: Vec<(String, Oid)> = Vec::new();
        for d in self.delegates() {
            if let Some(t) = snap.get(&self.actors[d].nid.to_string()).and_then(|m| m.get("refs/heads/master")) {
                tips.push((self.actors[d].name.clone(), *t));
            }
        }
        let raw = &repo.backend;
        let desc_or_eq = |x: &Oid, of: &Oid| -> bool { x == of || raw.graph_descendant_of(**x, **of).unwrap_or(false) };
        let t = self.threshold;
        let support = |c: &Oid| -> usize { tips.iter().filter(|(_, tip)| desc_or_eq(tip, c)).count() };
        let distinct: BTreeSet<Oid> = tips.iter().map(|(_, o)| *o).collect();
        let supported: Vec<Oid> = distinct.iter().filter(|c| support(c) >= t).copied().collect();
        let shape = format!("tips [{}] threshold {t}", tips.iter().map(|(n, o)| format!("{n}={}", self.cname(o))).collect::<Vec<_>>().join(" "));
        if distinct.len() < tips.len() {
            self.res.hit("probe.c03.shared_tip");
        }
        match result {
            Ok(h) => {
                let head = h.new;
                self.res.trace.log("set-head", format!("set_head -> {} ({shape})", self.cname(&head)));
                self.res.hit("probe.c03.head_returned");
                if !distinct.contains(&head) {
                    self.res.violate(&own, "C03", "C03/head-not-a-tip", format!("canonical head {} is not one of the delegate tips ({shape})", self.cname(&head)));
                } else if support(&head) < t {
                    self.res.violate(&own, "C03", "C03/head-below-threshold", format!("canonical head {} is supported by {} distinct delegate(s), threshold {t} ({shape})", self.cname(&head), support(&head)));
                } else if let Some(better) = supported.iter().find(|c| **c != head && desc_or_eq(c, &head)) {
                    self.res.violate(&own, "C03", "C03/head-not-maximal", format!("canonical head {} has a sufficiently supported descendant {} ({shape})", self.cname(&head), self.cname(better)));
                } else {
                    let divergent = supported.iter().any(|a| supported.iter().any(|b| a != b && !desc_or_eq(a, b) && !desc_or_eq(b, a)));
                    let top = supported.iter().any(|c| supported.iter().all(|o| desc_or_eq(c, o)));
                    if divergent && !top {
                        self.res.violate(&own, "C03", "C03/head-despite-divergence", format!("canonical head {} was returned although sufficiently supported tips are mutually divergent and none descends from all of them ({shape})", self.cname(&head)));
                    } else if divergent {
                        self.res.hit("probe.c03.divergent_supported_tips_with_common_descendant");
                    }
                }
            }
            Err(radicle::storage::RepositoryError::Quorum(radicle::git::canonical::QuorumError::NoCandidates(_))) => {
                self.res.trace.log("set-head-none", format!("set_head -> no candidates ({shape})"));
                self.res.hit("probe.c03.no_candidates");
                if let Some(c) = supported.first() {
                    self.res.violate(&own, "C03", "C03/no-head-despite-support", format!("no head returned although {} is supported by {} delegate(s) ({shape})", self.cname(c), support(c)));
                }
            }
            Err(radicle::storage::RepositoryError::Quorum(radicle::git::canonical::QuorumError::Diverging(_))) => {
                self.res.trace.log("set-head-diverging", format!("set_head -> diverging ({shape})"));
                self.res.hit("probe.c03.diverging");
                let divergent = supported.iter().any(|a| supported.iter().any(|b| a != b && !desc_or_eq(a, b) && !desc_or_eq(b, a)));
                let top = supported.iter().any(|c| supported.iter().all(|o| desc_or_eq(c, o)));
                if !divergent {
                    self.res.violate(&own, "C03", "C03/diverging-without-divergence", format!("a divergence error was returned but the sufficiently supported tips are linearly ordered ({shape})"));
                } else if top {
                    self.res.violate(&own, "C03", "C03/diverging-despite-common-descendant", format!("a divergence error was returned although a sufficiently supported tip descends from all the others ({shape})"));
                }
            }
            Err(e) => {
                self.res.trace.log("set-head-error", format!("set_head -> error {}", crate::kit::json::normalise(&e.to_string())));
            }
        }
    }

    /// C28: `Storage::clean` as one more operation of the local node.
    pub fn clean(&mut self) {
        let own = self.own.clone();
        if !self.lst.contains(&self.rid).unwrap_or(false) {
            return;
        }
        let lnid = self.actors[self.l].nid.to_string();
        // a disk fault: the local node's signed refs reference points at somebody else's signed refs commit, so
        // the local signed refs exist but do not verify
        {
            let snap = self.l_snapshot();
            let mine = snap.get(&lnid).and_then(|m| m.get("refs/rad/sigrefs")).copied();
            let other = snap.iter().filter(|(ns, _)| **ns != lnid && !ns.is_empty()).filter_map(|(_, m)| m.get("refs/rad/sigrefs").copied()).next();
            if let (Some(_), Some(o)) = (mine, other) {
                if self.ch.pick(4) == 3 {
                    if let Ok(repo) = self.lst.repository(self.rid) {
                        if repo.backend.reference(&format!("refs/namespaces/{lnid}/refs/rad/sigrefs"), *o, true, "sim fault").is_ok() {
                            self.res.hit("fault.disk.local_sigrefs_unverifiable");
                            self.res.trace.log("fault-sigrefs", "FAULT the local node's rad/sigrefs now points at another peer's signed refs".to_string());
                        }
                    }
                }
            }
        }
        let before = self.l_snapshot();
        let had_sigrefs = before.get(&lnid).map(|m| m.contains_key("refs/rad/sigrefs")).unwrap_or(false);
        let delegates: BTreeSet<String> = self.delegates().iter().map(|d| self.actors[*d].nid.to_string()).collect();
        let r = self.lst.clean(self.rid);
        let exists = self.lst.contains(&self.rid).unwrap_or(false);
        let after = self.l_snapshot();
        self.res.trace.log("clean", format!("clean -> {} (local sigrefs: {had_sigrefs}, repository exists afterwards: {exists})", if r.is_ok() { "ok" } else { "err" }));
        self.res.hit("probe.c28.clean");
        if r.is_err() {
            // an error must not have removed anything
            if !exists || before != after {
                self.res.violate(&own, "C28", "C28/error-but-storage-changed", format!("clean returned an error but changed local storage (repository exists afterwards: {exists})"));
            } else {
                self.res.hit("probe.c28.error_left_storage_unchanged");
            }
            return;
        }
        if !had_sigrefs {
            if exists {
                self.res.violate(&own, "C28", "C28/repository-kept-without-local-sigrefs", "the local node has no signed refs but the repository was not removed".into());
            } else {
                self.res.hit("probe.c28.repository_removed");
            }
            return;
        }
        if !exists {
            self.res.violate(&own, "C28", "C28/repository-removed-with-local-sigrefs", "the repository was removed although the local node has signed refs in it".into());
            return;
        }
        for (ns, refs) in &before {
            if ns.is_empty() {
                continue;
            }
            let keep = *ns == lnid || delegates.contains(ns);
            match (keep, after.get(ns)) {
                (true, Some(a)) if a == refs => {}
                (true, _) => {
                    let which = if *ns == lnid { "local" } else { "delegate" };
                    self.res.violate(&own, "C28", &format!("C28/{which}-namespace-touched"), format!("clean removed or changed the namespace of {}", self.aname(ns)));
                }
                (false, None) => self.res.hit("probe.c28.other_namespace_removed"),
                (false, Some(_)) => self.res.violate(&own, "C28", "C28/other-namespace-kept", format!("clean kept the namespace of {}, which is neither the local node nor a delegate", self.aname(ns))),
            }
        }
        if before.get("") != after.get("") {
            self.res.violate(&own, "C28", "C28/top-level-refs-touched", "clean changed references outside the peer namespaces".into());
        }
    }
}

//! What a byzantine serving peer does to the namespaces it offers (libgit2 directly on the
//! serving repository; the harness owns every key, so equivocation is a legal move).

use radicle::git::Oid;
use radicle::storage::{ReadRepository, WriteRepository};

use super::{ns_ref, World};

impl<'a> World<'a> {
    fn sigrefs_name(&self, a: usize) -> String {
        ns_ref(&self.actors[a].nid, "refs/rad/sigrefs")
    }

    fn current_sigrefs(&self, a: usize) -> Option<Oid> {
        self.server_repo().backend.refname_to_id(&self.sigrefs_name(a)).ok().map(Oid::from)
    }

    /// Write a sigrefs commit with the given `refs` text and `signature` bytes on top of `parent`.
    fn write_sigrefs(&mut self, a: usize, refs_text: &[u8], signature: &[u8], parent: Option<Oid>) -> Oid {
        self.tick();
        let repo = self.server_repo();
        let raw = &repo.backend;
        let rb = raw.blob(refs_text).expect("blob");
        let sb = raw.blob(signature).expect("blob");
        let mut tb = raw.treebuilder(None).expect("tb");
        tb.insert("refs", rb, 0o100_644).expect("insert");
        tb.insert("signature", sb, 0o100_644).expect("insert");
        let tree = raw.find_tree(tb.write().expect("tree")).expect("tree");
        let sig = git2::Signature::new("radicle", "sim", &git2::Time::new(self.time, 0)).expect("sig");
        let parents: Vec<git2::Commit> = parent.iter().map(|p| raw.find_commit(**p).expect("parent")).collect();
        let prefs: Vec<&git2::Commit> = parents.iter().collect();
        let oid = raw.commit(None, &sig, &sig, "Update signed refs\n", &tree, &prefs).expect("commit");
        raw.reference(&self.sigrefs_name(a), oid, true, "sim tamper").expect("ref");
        oid.into()
    }

    /// The canonical text of the refs currently present in `a`'s namespace on the server.
    fn present_refs_text(&self, a: usize) -> Vec<u8> {
        let snap = Self::snapshot(&self.server_repo().backend);
        let mut out = String::new();
        if let Some(m) = snap.get(&self.actors[a].nid.to_string()) {
            for (name, oid) in m {
                if name != "refs/rad/sigrefs" {
                    out.push_str(&format!("{oid} {name}\n"));
                }
            }
        }
        out.into_bytes()
    }

    pub fn tamper(&mut self, a: usize) {
        let name = self.actors[a].name.clone();
        let nid = self.actors[a].nid;
        let Some(cur) = self.current_sigrefs(a) else { return };
        // kinds; each is a distinct byzantine move
        let kinds: [&'static str; 13] = [
            "unsigned-rad-id",
            "extra-unsigned-ref",
            "signed-ref-moved",
            "signed-ref-deleted",
            "sigrefs-deleted",
            "signature-random",
            "signature-by-other-key",
            "refs-blob-altered-after-signing",
            "root-of-other-repo",
            "no-root-entry",
            "sigrefs-rewound",
            "sigrefs-diverged",
            "non-canonical-refs-blob",
        ];
        let kind = if self.own == "C02" && self.ch.pick(2) == 0 {
            // the threshold check wants offers that make one delegate invalid without failing the whole fetch
            *self.ch.choose(&["sigrefs-deleted", "unsigned-rad-id"])
        } else {
            kinds[self.ch.pick_usize(kinds.len())]
        };
        let repo = self.server_repo();
        let raw = &repo.backend;
        let any_commit = self.commits[self.ch.pick_usize(self.commits.len())];
        let applied = match kind {
            "unsigned-rad-id" => {
                // a special ref the client always asks for, not covered by the signed refs (or moved away
                // from what they say)
                let r = ns_ref(&nid, "refs/rad/id");
                let old = raw.refname_to_id(&r).ok();
                let target = match (old, repo.identity_head()) {
                    (Some(_), _) => Some(*any_commit),
                    (None, Ok(h)) => Some(*h),
                    _ => None,
                };
                match target {
                    Some(t) if Some(t) != old => raw.reference(&r, t, true, "tamper").is_ok(),
                    _ => false,
                }
            }
            "extra-unsigned-ref" => {
                raw.reference(&ns_ref(&nid, "refs/heads/sneaky"), *any_commit, true, "tamper").is_ok()
            }
            "signed-ref-moved" => {
                let r = ns_ref(&nid, "refs/heads/master");
                let old = raw.refname_to_id(&r).ok();
                let target = self.commits.iter().rev().find(|c| Some(***c) != old).copied();
                match target {
                    Some(t) => raw.reference(&r, *t, true, "tamper").is_ok(),
                    None => false,
                }
            }
            "signed-ref-deleted" => raw.find_reference(&ns_ref(&nid, "refs/heads/master")).and_then(|mut r| r.delete()).is_ok(),
            "sigrefs-deleted" => raw.find_reference(&self.sigrefs_name(a)).and_then(|mut r| r.delete()).is_ok(),
            "signature-random" => {
                let text = self.present_refs_text(a);
                let sig = self.ch.bytes(64);
                drop(repo);
                self.write_sigrefs(a, &text, &sig, Some(cur));
                true
            }
            "signature-by-other-key" => {
                let text = self.present_refs_text(a);
                let other = &self.actors[(a + 1) % self.actors.len()].signer;
                let sig: radicle::crypto::Signature = radicle::crypto::signature::Signer::<radicle::crypto::Signature>::sign(other, &text);
                let sig: [u8; 64] = **sig;
                drop(repo);
                self.write_sigrefs(a, &text, &sig, Some(cur));
                true
            }
            "refs-blob-altered-after-signing" => {
                // valid signature over the honest text, but the blob lists master at another commit
                let text = self.present_refs_text(a);
                let sig: radicle::crypto::Signature = radicle::crypto::signature::Signer::<radicle::crypto::Signature>::sign(&self.actors[a].signer, &text);
                let sig: [u8; 64] = **sig;
                let s = String::from_utf8_lossy(&text).to_string();
                let altered: String = s.lines().map(|l| if l.ends_with("refs/heads/master") { format!("{any_commit} refs/heads/master\n") } else { format!("{l}\n") }).collect();
                drop(repo);
                self.write_sigrefs(a, altered.as_bytes(), &sig, Some(cur));
                true
            }
            "root-of-other-repo" | "no-root-entry" => {
                // correctly signed refs whose refs/rad/root names another repository, or is absent
                let text = String::from_utf8_lossy(&self.present_refs_text(a)).to_string();
                let other_root = any_commit; // a commit that is not an identity commit of this repository
                let mut lines: Vec<String> = text.lines().filter(|l| !l.ends_with("refs/rad/root")).map(|l| l.to_string()).collect();
                if kind == "root-of-other-repo" {
                    lines.push(format!("{other_root} refs/rad/root"));
                }
                // canonical order is by ref name
                lines.sort_by(|x, y| x.split_once(' ').unwrap().1.cmp(y.split_once(' ').unwrap().1));
                let new_text: String = lines.iter().map(|l| format!("{l}\n")).collect();
                let sig: radicle::crypto::Signature = radicle::crypto::signature::Signer::<radicle::crypto::Signature>::sign(&self.actors[a].signer, new_text.as_bytes());
                let sig: [u8; 64] = **sig;
                // make the namespace match the signed set
                let rootref = ns_ref(&nid, "refs/rad/root");
                if kind == "root-of-other-repo" {
                    let _ = raw.reference(&rootref, *other_root, true, "tamper");
                } else if let Ok(mut r) = raw.find_reference(&rootref) {
                    let _ = r.delete();
                }
                drop(repo);
                self.write_sigrefs(a, new_text.as_bytes(), &sig, Some(cur));
                true
            }
            "sigrefs-rewound" => {
                // offer an ancestor of the current sigrefs (with the refs it signed)
                match raw.find_commit(*cur).ok().and_then(|c| c.parent_id(0).ok()) {
                    Some(parent) => raw.reference(&self.sigrefs_name(a), parent, true, "tamper").is_ok(),
                    None => false,
                }
            }
            "sigrefs-diverged" => {
                // an honest-looking, correctly signed sigrefs that does not descend from the current one
                let parent = raw.find_commit(*cur).ok().and_then(|c| c.parent_id(0).ok()).map(Oid::from);
                let r = ns_ref(&nid, "refs/heads/master");
                let _ = raw.reference(&r, *any_commit, true, "tamper");
                let _ = raw.reference(&ns_ref(&nid, "refs/heads/fork"), *any_commit, true, "tamper");
                let text = self.present_refs_text(a);
                let sig: radicle::crypto::Signature = radicle::crypto::signature::Signer::<radicle::crypto::Signature>::sign(&self.actors[a].signer, &text);
                let sig: [u8; 64] = **sig;
                drop(repo);
                self.write_sigrefs(a, &text, &sig, parent);
                true
            }
            _ => {
                // non-canonical blob: a zero-oid line and a duplicate line, signed as written
                let mut text = String::from_utf8_lossy(&self.present_refs_text(a)).to_string();
                text.push_str("0000000000000000000000000000000000000000 refs/heads/zero\n");
                if let Some(first) = text.lines().next().map(|l| l.to_string()) {
                    text.push_str(&first);
                    text.push('\n');
                }
                let sig: radicle::crypto::Signature = radicle::crypto::signature::Signer::<radicle::crypto::Signature>::sign(&self.actors[a].signer, text.as_bytes());
                let sig: [u8; 64] = **sig;
                drop(repo);
                self.write_sigrefs(a, text.as_bytes(), &sig, Some(cur));
                true
            }
        };
        if applied {
            self.tampered.insert(a, kind);
            if !matches!(kind, "extra-unsigned-ref" | "signed-ref-moved" | "signed-ref-deleted") {
                self.broken.insert(a);
            }
            self.res.hit(&format!("fault.server.{kind}"));
            if self.actors[a].delegate {
                self.res.hit("probe.tamper.delegate_namespace");
            } else {
                self.res.hit("probe.tamper.non_delegate_namespace");
            }
            self.res.trace.log(&format!("tamper-{kind}"), format!("server tampers with {name}: {kind}"));
        }
        let _ = WriteRepository::raw(&self.server_repo());
    }
}

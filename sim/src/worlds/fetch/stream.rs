//! SimStream: `radicle_fetch::transport::ConnectionStream` in front of a `git upload-pack`
//! child started in the serving repository exactly as `worker/upload_pack.rs` starts it.
//! A pre-drawn fault script splits reads, cuts either direction after N bytes with EOF or
//! an error, corrupts one server->client byte, or makes `eof()` fail.

use std::io::{self, Read, Write};
use std::path::Path;
use std::process::{Child, ChildStdin, ChildStdout, Command, Stdio};
use std::sync::{Arc, Mutex};

use radicle_fetch::transport::{ConnectionStream, SignalEof};

#[derive(Clone, Debug, Default)]
pub struct FaultScript {
    /// cap on bytes returned per read call, cycled (empty = no cap)
    pub read_caps: Vec<usize>,
    /// after this many bytes from the server: (EOF | error | timeout)
    pub cut_read_after: Option<(usize, u8)>,
    /// after this many bytes to the server: error
    pub cut_write_after: Option<usize>,
    /// flip one bit of this server->client byte
    pub corrupt_at: Option<usize>,
    pub eof_fails: bool,
}

impl FaultScript {
    pub fn is_benign(&self) -> bool {
        self.cut_read_after.is_none() && self.cut_write_after.is_none() && self.corrupt_at.is_none() && !self.eof_fails
    }
}

#[derive(Default, Debug, Clone)]
pub struct Fired {
    pub split_reads: u64,
    pub read_cut: bool,
    pub write_cut: bool,
    pub corrupted: bool,
    pub eof_failed: bool,
    pub bytes_in: usize,
    pub bytes_out: usize,
}

pub struct SimRead {
    out: ChildStdout,
    script: FaultScript,
    n: usize,
    calls: usize,
    fired: Arc<Mutex<Fired>>,
}

impl Read for SimRead {
    fn read(&mut self, buf: &mut [u8]) -> io::Result<usize> {
        if buf.is_empty() {
            return Ok(0);
        }
        if let Some((at, kind)) = self.script.cut_read_after {
            if self.n >= at {
                self.fired.lock().unwrap().read_cut = true;
                return match kind {
                    0 => Ok(0),
                    1 => Err(io::Error::new(io::ErrorKind::ConnectionReset, "sim: connection reset")),
                    _ => Err(io::Error::new(io::ErrorKind::TimedOut, "sim: read timed out")),
                };
            }
        }
        let mut cap = buf.len();
        if !self.script.read_caps.is_empty() {
            let c = self.script.read_caps[self.calls % self.script.read_caps.len()].max(1);
            if c < cap {
                cap = c;
                self.fired.lock().unwrap().split_reads += 1;
            }
        }
        if let Some((at, _)) = self.script.cut_read_after {
            cap = cap.min(at - self.n).max(1);
        }
        self.calls += 1;
        let k = self.out.read(&mut buf[..cap])?;
        if let Some(c) = self.script.corrupt_at {
            if c >= self.n && c < self.n + k {
                buf[c - self.n] ^= 0x10;
                self.fired.lock().unwrap().corrupted = true;
            }
        }
        self.n += k;
        self.fired.lock().unwrap().bytes_in = self.n;
        Ok(k)
    }
}

pub struct SimWrite {
    stdin: Option<ChildStdin>,
    /// bytes of the request header pkt-line still to swallow (None = length not known yet)
    header: Option<usize>,
    header_buf: Vec<u8>,
    script: FaultScript,
    n: usize,
    fired: Arc<Mutex<Fired>>,
    pub header_seen: Vec<u8>,
}

#[derive(Debug)]
pub struct EofError;
impl std::fmt::Display for EofError {
    fn fmt(&self, f: &mut std::fmt::Formatter<'_>) -> std::fmt::Result {
        write!(f, "sim: eof signal failed")
    }
}
impl std::error::Error for EofError {}

impl SignalEof for SimWrite {
    type Error = EofError;
    fn eof(&mut self) -> Result<(), EofError> {
        // closing stdin is how the worker's upload-pack reader thread ends the child's input
        self.stdin.take();
        if self.script.eof_fails {
            self.fired.lock().unwrap().eof_failed = true;
            return Err(EofError);
        }
        Ok(())
    }
}

impl Write for SimWrite {
    fn write(&mut self, buf: &[u8]) -> io::Result<usize> {
        if let Some(at) = self.script.cut_write_after {
            if self.n >= at {
                self.fired.lock().unwrap().write_cut = true;
                return Err(io::Error::new(io::ErrorKind::BrokenPipe, "sim: broken pipe"));
            }
        }
        self.n += buf.len();
        self.fired.lock().unwrap().bytes_out = self.n;
        let mut data = buf;
        // The first pkt-line is the request header (`git-upload-pack /<rid>\0host=..\0\0version=2\0`),
        // which the worker parses itself and does not forward to the child.
        let mut forward = Vec::new();
        loop {
            match self.header {
                Some(0) => {
                    forward.extend_from_slice(data);
                    break;
                }
                Some(left) => {
                    let k = left.min(data.len());
                    self.header_seen.extend_from_slice(&data[..k]);
                    self.header = Some(left - k);
                    data = &data[k..];
                    if data.is_empty() {
                        break;
                    }
                }
                None => {
                    let need = 4 - self.header_buf.len();
                    let k = need.min(data.len());
                    self.header_buf.extend_from_slice(&data[..k]);
                    data = &data[k..];
                    if self.header_buf.len() == 4 {
                        let len = std::str::from_utf8(&self.header_buf).ok().and_then(|s| usize::from_str_radix(s, 16).ok()).unwrap_or(4);
                        self.header = Some(len.saturating_sub(4));
                    }
                    if data.is_empty() {
                        break;
                    }
                }
            }
        }
        if !forward.is_empty() {
            match self.stdin.as_mut() {
                Some(s) => s.write_all(&forward)?,
                None => return Err(io::Error::new(io::ErrorKind::BrokenPipe, "sim: stream closed")),
            }
        }
        Ok(buf.len())
    }

    fn flush(&mut self) -> io::Result<()> {
        match self.stdin.as_mut() {
            Some(s) => s.flush(),
            None => Ok(()),
        }
    }
}

pub struct SimStream {
    child: Child,
    pub r: SimRead,
    pub w: SimWrite,
}

impl SimStream {
    /// Spawn the serving side; the returned handle reports which faults actually fired.
    pub fn spawn(git_dir: &Path, script: FaultScript) -> io::Result<(Self, Arc<Mutex<Fired>>)> {
        let mut child = Command::new("git")
            .current_dir(git_dir)
            .env_clear()
            .envs(std::env::vars().filter(|(k, _)| k == "PATH"))
            .env("GIT_PROTOCOL", "version=2")
            .env("GIT_CONFIG_NOSYSTEM", "1")
            // Delayed progress lines ("Counting objects: ..%") only appear when the child is slow (machine load):
            // they would shift every later byte offset of the stream. Never show them.
            .env("GIT_PROGRESS_DELAY", "100000")
            .env("HOME", git_dir)
            .args(["-c", "uploadpack.allowAnySha1InWant=true", "-c", "uploadpack.allowRefInWant=true", "-c", "lsrefs.unborn=ignore", "-c", "pack.threads=1", "upload-pack", "--strict", "--timeout=9", "."])
            .stdin(Stdio::piped())
            .stdout(Stdio::piped())
            .stderr(Stdio::null())
            .spawn()?;
        let stdin = child.stdin.take().unwrap();
        let out = child.stdout.take().unwrap();
        let fired = Arc::new(Mutex::new(Fired::default()));
        Ok((
            SimStream {
                child,
                r: SimRead { out, script: script.clone(), n: 0, calls: 0, fired: fired.clone() },
                w: SimWrite { stdin: Some(stdin), header: None, header_buf: Vec::new(), script, n: 0, fired: fired.clone(), header_seen: Vec::new() },
            },
            fired,
        ))
    }
}

impl Drop for SimStream {
    fn drop(&mut self) {
        self.w.stdin.take();
        let _ = self.child.kill();
        let _ = self.child.wait();
    }
}

#[derive(Debug)]
pub struct OpenError;
impl std::fmt::Display for OpenError {
    fn fmt(&self, f: &mut std::fmt::Formatter<'_>) -> std::fmt::Result {
        write!(f, "sim: open failed")
    }
}
impl std::error::Error for OpenError {}

impl ConnectionStream for SimStream {
    type Read = SimRead;
    type Write = SimWrite;
    type Error = OpenError;

    fn open(&mut self) -> Result<(&mut Self::Read, &mut Self::Write), Self::Error> {
        Ok((&mut self.r, &mut self.w))
    }
}

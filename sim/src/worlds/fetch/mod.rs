//! World B — FETCH-SIM: the real `radicle_fetch` client (all stages, validation,
//! `repository::update`) fetching into a real `radicle::Storage` over a simulated, faulty
//! stream from a stock `git upload-pack` serving a repository that a byzantine peer has
//! tampered with. Oracles are state based: snapshots of every namespace of the fetcher's
//! repository before and after the call (C01, C02), `set_head` (C03), `Storage::clean` (C28).

pub mod stream;
mod oracle;
mod tamper;

use std::collections::{BTreeMap, BTreeSet};
use std::path::PathBuf;
use std::str::FromStr;

use radicle::crypto::test::signer::MockSigner;
use radicle::git::Oid;
use radicle::identity::doc::{Doc, Visibility};
use radicle::identity::project::Project;
use radicle::identity::{Did, RepoId};
use radicle::node::device::Device;
use radicle::node::{Alias, NodeId};
use radicle::storage::git::Repository;
use radicle::storage::refs::RefsAt;
use radicle::storage::{ReadRepository, ReadStorage, SignRepository, WriteRepository, WriteStorage};
use radicle::Storage;
use radicle_fetch::{Allowed, BlockList, FetchLimit};

use crate::gen;
use crate::kit::json::catch;
use crate::kit::{Chooser, RunCfg, RunResult};
use stream::{FaultScript, SimStream};

pub struct Actor {
    pub name: String,
    pub signer: Device<MockSigner>,
    pub nid: NodeId,
    pub delegate: bool,
}

/// refname -> oid for one namespace
pub type NsSnap = BTreeMap<String, Oid>;
/// namespace -> refs, plus top-level refs under the key "" (empty)
pub type Snap = BTreeMap<String, NsSnap>;

pub struct World<'a> {
    pub ch: &'a mut Chooser,
    pub own: String,
    pub res: RunResult,
    pub dir: PathBuf,
    pub server: Storage,
    pub rid: RepoId,
    pub threshold: usize,
    pub actors: Vec<Actor>,
    /// index of the fetching node in `actors`
    pub l: usize,
    pub lst: Storage,
    pub commits: Vec<Oid>,
    /// what the byzantine server did to each namespace in the current round (for probes and class names only)
    pub tampered: BTreeMap<usize, &'static str>,
    pub time: i64,
    pub thorough: bool,
    /// namespaces whose signed refs on the server are no longer something an honest owner can extend
    pub broken: BTreeSet<usize>,
    /// refs_at mode of the fetch being checked (0 = no refs_at: every namespace is requested)
    pub last_mode: u8,
    /// forged sigrefs-like commits that exist in the server's object database but under no ref
    pub forged_at: BTreeMap<usize, Oid>,
}

fn ns_ref(nid: &NodeId, name: &str) -> String {
    format!("refs/namespaces/{nid}/{name}")
}

impl<'a> World<'a> {
    fn tick(&mut self) {
        self.time += 1 + self.ch.pick(3) as i64;
        std::env::set_var("GIT_COMMITTER_DATE", self.time.to_string());
        std::env::set_var("RAD_COMMIT_TIME", self.time.to_string());
        std::env::set_var("RAD_LOCAL_TIME", self.time.to_string());
    }

    pub fn server_repo(&self) -> Repository {
        self.server.repository(self.rid).expect("server repository")
    }

    pub fn aname(&self, nid: &str) -> String {
        self.actors.iter().find(|a| a.nid.to_string() == nid).map(|a| a.name.clone()).unwrap_or_else(|| if nid.is_empty() { "top".into() } else { "?".into() })
    }

    /// A new commit on top of `parents` in the serving repository.
    pub fn commit(&mut self, parents: &[Oid]) -> Oid {
        let repo = self.server_repo();
        let raw = &repo.backend;
        let n = self.commits.len();
        let blob = raw.blob(format!("content {n}\n").as_bytes()).expect("blob");
        let mut tb = raw.treebuilder(None).expect("treebuilder");
        tb.insert("f", blob, 0o100_644).expect("insert");
        let tree = raw.find_tree(tb.write().expect("tree")).expect("find tree");
        let sig = git2::Signature::new("sim", "sim@sim", &git2::Time::new(1_700_000_000 + n as i64, 0)).expect("sig");
        let ps: Vec<git2::Commit> = parents.iter().map(|p| raw.find_commit(**p).expect("parent")).collect();
        let prefs: Vec<&git2::Commit> = ps.iter().collect();
        let oid: Oid = raw.commit(None, &sig, &sig, &format!("c{n}"), &tree, &prefs).expect("commit").into();
        self.commits.push(oid);
        oid
    }

    pub fn cname(&self, oid: &Oid) -> String {
        match self.commits.iter().position(|c| c == oid) {
            Some(i) => format!("c{i}"),
            None => format!("{:.7}", oid.to_string()),
        }
    }

    /// Point `actor`'s branch at `oid` in the serving repository and re-sign its refs honestly.
    pub fn push(&mut self, actor: usize, branch: &str, oid: Oid) {
        self.tick();
        let repo = self.server_repo();
        let name = ns_ref(&self.actors[actor].nid, &format!("refs/heads/{branch}"));
        repo.backend.reference(&name, *oid, true, "sim push").expect("reference");
        repo.sign_refs(&self.actors[actor].signer).expect("sign_refs");
    }

    /// Set (or delete) any ref of `actor` in the serving repository and re-sign honestly.
    pub fn push_ref(&mut self, actor: usize, refname: &str, oid: Option<Oid>) {
        self.tick();
        let repo = self.server_repo();
        let name = ns_ref(&self.actors[actor].nid, refname);
        match oid {
            Some(oid) => {
                repo.backend.reference(&name, *oid, true, "sim push").expect("reference");
            }
            None => {
                if let Ok(mut r) = repo.backend.find_reference(&name) {
                    r.delete().expect("delete ref");
                }
            }
        }
        repo.sign_refs(&self.actors[actor].signer).expect("sign_refs");
    }

    /// All refs of a repository grouped by namespace, read with libgit2 only.
    pub fn snapshot(repo: &git2::Repository) -> Snap {
        let mut snap: Snap = BTreeMap::new();
        for r in repo.references().expect("references").flatten() {
            let Some(name) = r.name() else { continue };
            let Some(target) = r.resolve().ok().and_then(|x| x.target()) else { continue };
            let (ns, rest) = match name.strip_prefix("refs/namespaces/") {
                Some(s) => match s.split_once('/') {
                    Some((ns, rest)) => (ns.to_string(), rest.to_string()),
                    None => continue,
                },
                None => (String::new(), name.to_string()),
            };
            snap.entry(ns).or_default().insert(rest, target.into());
        }
        snap
    }

    pub fn l_snapshot(&self) -> Snap {
        match self.lst.repository(self.rid) {
            Ok(r) => Self::snapshot(&r.backend),
            Err(_) => BTreeMap::new(),
        }
    }

    /// One fetch by L from the server. Returns a short outcome label.
    pub fn fetch(&mut self, script: FaultScript, refs_at_mode: u8) -> String {
        self.last_mode = refs_at_mode;
        let rid = self.rid;
        let local = self.actors[self.l].nid;
        let before = self.l_snapshot();
        let exists = self.lst.contains(&rid).unwrap_or(false);
        let remote = self.actors[0].nid; // the serving peer is d0's node (it may serve anything)
        let remote = if remote == local { self.actors[1 % self.actors.len()].nid } else { remote };
        let git_dir = self.server.path().join(rid.canonical());
        let (st, fired) = SimStream::spawn(&git_dir, script.clone()).expect("spawn upload-pack");
        let follow = Allowed::All;
        let blocked = BlockList::from_iter(Vec::<NodeId>::new());
        // refs_at: 0 none, 1 truthful (what the server has), 2 lying (an unrelated commit), 3 forged (an invalid commit on top of the real one)
        let refs_at: Option<Vec<RefsAt>> = if !exists || refs_at_mode == 0 {
            None
        } else {
            let srv = Self::snapshot(&self.server_repo().backend);
            let mut v = Vec::new();
            for a in &self.actors {
                if a.nid == local {
                    continue;
                }
                if let Some(at) = srv.get(&a.nid.to_string()).and_then(|m| m.get("refs/rad/sigrefs")) {
                    let at = match refs_at_mode {
                        2 => self.commits[0],
                        3 => {
                            // a commit that descends from the offered sigrefs but is not a valid signed-refs commit
                            let repo = self.server_repo();
                            let raw = &repo.backend;
                            let blob = raw.blob(b"garbage\n").expect("blob");
                            let mut tb = raw.treebuilder(None).expect("tb");
                            tb.insert("refs", blob, 0o100_644).expect("insert");
                            tb.insert("signature", blob, 0o100_644).expect("insert");
                            let tree = raw.find_tree(tb.write().expect("tree")).expect("tree");
                            let sig = git2::Signature::new("radicle", "sim", &git2::Time::new(self.time, 0)).expect("sig");
                            let parent = raw.find_commit(**at).expect("parent");
                            let forged: Oid = raw.commit(None, &sig, &sig, "Update signed refs\n", &tree, &[&parent]).expect("commit").into();
                            forged
                        }
                        _ => *at,
                    };
                    if self.ch.pick(4) != 3 {
                        v.push(RefsAt { remote: a.nid, at });
                    }
                }
            }
            if v.is_empty() { None } else { Some(v) }
        };
        let with_refs_at = refs_at.is_some();
        let lst = self.lst.clone();
        let outcome = catch(move || -> Result<(radicle_fetch::FetchResult, bool), String> {
            if exists {
                let repo = lst.repository(rid).map_err(|e| e.to_string())?;
                let mut h = radicle_fetch::Handle::new(local, repo, follow, blocked, st).map_err(|e| e.to_string())?;
                let r = radicle_fetch::pull(&mut h, FetchLimit::default(), remote, refs_at).map_err(|e| format!("{e}"))?;
                Ok((r, false))
            } else {
                let (repo, tmp) = lst.lock_repository(rid).map_err(|e| e.to_string())?;
                let mut h = radicle_fetch::Handle::new(local, repo, follow, blocked, st).map_err(|e| e.to_string())?;
                let r = radicle_fetch::clone(&mut h, FetchLimit::default(), remote);
                drop(h);
                match r {
                    Ok(res @ radicle_fetch::FetchResult::Success { .. }) => {
                        // worker::fetch::mv
                        let to = lst.path().join(rid.canonical());
                        let from = tmp.path().to_path_buf();
                        std::mem::forget(tmp);
                        std::fs::rename(&from, &to).map_err(|e| e.to_string())?;
                        Ok((res, true))
                    }
                    Ok(res) => Ok((res, true)),
                    Err(e) => Err(format!("{e}")),
                }
            }
        });
        let fired = fired.lock().unwrap().clone();
        if fired.split_reads > 0 {
            self.res.hit("fault.stream.split_reads");
        }
        if fired.read_cut {
            self.res.hit("fault.stream.read_cut");
        }
        if fired.write_cut {
            self.res.hit("fault.stream.write_cut");
        }
        if fired.corrupted {
            self.res.hit("fault.stream.byte_corrupted");
        }
        if fired.eof_failed {
            self.res.hit("fault.stream.eof_signal_failed");
        }
        let faulty = fired.read_cut || fired.write_cut || fired.corrupted;
        let label;
        let after = self.l_snapshot();
        match outcome {
            Err(p) => {
                label = "panic".to_string();
                self.res.trace.log("fetch-panic", format!("fetch panicked: {}", p.message));
                let own = self.own.clone();
                self.res.violate(&own, "C13", &format!("C13/panic/fetch/{}", p.class()), format!("radicle_fetch panicked: {}", p.message));
            }
            Ok(Err(e)) => {
                label = "error".to_string();
                let mut msg = e.clone();
                for a in &self.actors {
                    msg = msg.replace(&a.nid.to_string(), &a.name);
                }
                for (i, c) in self.commits.iter().enumerate() {
                    msg = msg.replace(&c.to_string(), &format!("c{i}"));
                }
                let msg: String = msg.split_whitespace().map(|w| if w.len() == 40 && w.chars().all(|c| c.is_ascii_hexdigit()) { "<oid>".to_string() } else if w.len() == 41 && w.ends_with([',', ')']) && w[..40].chars().all(|c| c.is_ascii_hexdigit()) { format!("<oid>{}", &w[40..]) } else { w.to_string() }).collect::<Vec<_>>().join(" ");
                // Where in the protocol a cut or a flipped bit lands depends on how the serving process happened to
                // chunk its side-band packets (real time): the error text after a transport fault is not part of the trace.
                let msg = if faulty { "<after a transport fault>".to_string() } else { msg };
                self.res.trace.log("fetch-error", format!("{} refs_at_mode={} -> Err({})", if exists { "pull" } else { "clone" }, if with_refs_at { refs_at_mode } else { 0 }, msg));
                self.res.hit("probe.fetch.error");
                self.check_fetch(&before, &after, "error", faulty);
            }
            Ok(Ok((r, _clone))) => match r {
                radicle_fetch::FetchResult::Success { applied, remotes, validations } => {
                    label = "success".to_string();
                    self.res.trace.log("fetch-success", format!("{} refs_at={with_refs_at} -> Success(updated={}, rejected={}, remotes=[{}], validations={})", if exists { "pull" } else { "clone" }, applied.updated.len(), applied.rejected.len(), remotes.iter().map(|r| self.aname(&r.to_string())).collect::<Vec<_>>().join(","), validations.len()));
                    self.res.hit("probe.fetch.success");
                    self.check_fetch(&before, &after, "success", faulty);
                    self.after_success();
                }
                radicle_fetch::FetchResult::Failed { threshold, delegates, validations } => {
                    label = "failed".to_string();
                    self.res.trace.log("fetch-failed", format!("{} refs_at={with_refs_at} -> Failed(threshold={threshold}, failed delegates=[{}], validations={})", if exists { "pull" } else { "clone" }, delegates.iter().map(|r| self.aname(&r.to_string())).collect::<Vec<_>>().join(","), validations.len()));
                    self.res.hit("probe.fetch.failed");
                    self.check_fetch(&before, &after, "failed", faulty);
                }
            },
        }
        label
    }
}

fn script(ch: &mut Chooser, faults: bool) -> FaultScript {
    let mut s = FaultScript::default();
    if ch.pick(2) == 1 {
        let n = 1 + ch.pick_usize(4);
        s.read_caps = (0..n).map(|_| *ch.choose(&[1usize, 2, 3, 7, 64, 1000])).collect();
    }
    if !faults {
        return s;
    }
    match ch.weighted(&[5, 2, 1, 1, 1]) {
        0 => {}
        1 => s.cut_read_after = Some((ch.pick_usize(3000), ch.pick(3) as u8)),
        2 => s.cut_write_after = Some(ch.pick_usize(600)),
        3 => s.corrupt_at = Some(ch.pick_usize(2500)),
        _ => s.eof_fails = true,
    }
    s
}

pub fn run(ch: &mut Chooser, cfg: &RunCfg) -> RunResult {
    let seed = ch.seed;
    let own = if cfg.property.starts_with("ALL") {
        "*".to_string()
    } else if cfg.property.starts_with("C13") {
        "C13".to_string()
    } else {
        cfg.property.clone()
    };
    // the canonical-head check wants many delegates, high thresholds and honest, frequent fetches
    let c03 = cfg.property == "C03";
    let k = 1 + if c03 { ch.weighted(&[1, 2, 4, 8]) } else { ch.weighted(&[2, 3, 3, 2]) }; // delegates
    // the threshold check (C02) wants thresholds at or just below the number of delegates, so that tampering with
    // one or two delegates decides between success and failure
    let c02 = cfg.property == "C02";
    let threshold = if (c03 || c02) && ch.pick(3) != 0 { k - ch.pick_usize(2).min(k - 1) } else { 1 + ch.pick_usize(k) };
    let others = if c03 { 0 } else { ch.pick_usize(3) };
    let l_is_delegate = !c03 && k >= 2 && ch.pick(2) == 1;
    let faults = if c03 { ch.pick(8) == 7 } else if c02 { ch.pick(8) != 0 } else { ch.pick(4) != 0 };
    let mut actors: Vec<Actor> = Vec::new();
    for i in 0..k {
        let signer = gen::key(seed, i as u64);
        actors.push(Actor { name: format!("d{i}"), nid: *signer.public_key(), signer, delegate: true });
    }
    for i in 0..others {
        let signer = gen::key(seed, 10 + i as u64);
        actors.push(Actor { name: format!("u{i}"), nid: *signer.public_key(), signer, delegate: false });
    }
    let l = if l_is_delegate {
        1 + ch.pick_usize(k - 1)
    } else {
        let signer = gen::key(seed, 30);
        actors.push(Actor { name: "L".into(), nid: *signer.public_key(), signer, delegate: false });
        actors.len() - 1
    };
    let dir = cfg.scratch.clone();
    let server = Storage::open(dir.join("server"), radicle::git::UserInfo { alias: Alias::from_str("server").unwrap(), key: actors[0].nid }).expect("server storage");
    let lst = Storage::open(dir.join("local"), radicle::git::UserInfo { alias: Alias::from_str("local").unwrap(), key: actors[l].nid }).expect("local storage");
    std::env::set_var("GIT_COMMITTER_DATE", "1700000000");
    std::env::set_var("RAD_COMMIT_TIME", "1700000000");
    std::env::set_var("RAD_LOCAL_TIME", "1700000000");
    // identity document with k delegates
    let project = Project::new("sim".try_into().unwrap(), "fetch world".to_string(), radicle::git::RefString::try_from("master").unwrap()).expect("project");
    let dids: Vec<Did> = actors.iter().filter(|a| a.delegate).map(|a| Did::from(a.nid)).collect();
    let doc = Doc::initial(project, dids[0], Visibility::Public)
        .with_edits(|raw| {
            raw.delegates = dids.clone();
            raw.threshold = threshold;
        })
        .expect("doc");
    // Sometimes the delegate set grew after the repository was created: the root document names only the
    // founder, a later revision (adopted by the founder alone) names everybody.
    let grown = k >= 2 && ch.pick(3) != 0;
    let root_doc = if grown {
        let project = Project::new("sim".try_into().unwrap(), "fetch world".to_string(), radicle::git::RefString::try_from("master").unwrap()).expect("project");
        Doc::initial(project, dids[0], Visibility::Public)
    } else {
        doc.clone()
    };
    let (repo, identity) = Repository::init(&root_doc, &server, &actors[0].signer).expect("Repository::init");
    repo.set_remote_identity_root_to(&actors[0].nid, identity).expect("set_remote_identity_root_to");
    repo.set_identity_head_to(identity).expect("set_identity_head_to");
    let mut res = RunResult::new();
    if grown {
        let mut idm = radicle::cob::identity::Identity::load_mut(&repo).expect("identity");
        let rev = idm.update("add delegates", "", &doc, &actors[0].signer).expect("identity update");
        assert_eq!(idm.current, rev, "the founder alone adopts the revision");
        repo.set_identity_head_to(rev).expect("set_identity_head_to");
        let idref = format!("refs/namespaces/{}/refs/rad/id", actors[0].nid);
        if repo.backend.refname_to_id(&idref).is_ok() {
            repo.backend.reference(&idref, *rev, true, "sim").expect("rad/id");
        }
        repo.sign_refs(&actors[0].signer).expect("sign_refs");
        res.hit("probe.fetch.delegates_added_after_creation");
    }
    let rid = repo.id;
    res.trace.log("setup", format!("delegates={k} threshold={threshold} others={others} fetcher={} faults={faults}", actors[l].name));
    res.summary = format!("{k} delegate(s), threshold {threshold}, {others} other(s), fetcher {}, faults={faults}", actors[l].name);
    let mut w = World { ch, own, res, dir, server, rid, threshold, actors, l, lst, commits: Vec::new(), tampered: BTreeMap::new(), time: 1_700_000_000, thorough: cfg.tier_thorough, broken: BTreeSet::new(), last_mode: 0, forged_at: BTreeMap::new() };

    // honest history, round 1: a small commit DAG; each actor's master on a chosen commit
    let c0 = w.commit(&[]);
    let mut frontier = vec![c0];
    let ncommits = 2 + w.ch.pick_usize(5);
    for _ in 0..ncommits {
        let p = frontier[w.ch.pick_usize(frontier.len())];
        let parents = if frontier.len() >= 2 && w.ch.pick(5) == 4 {
            let q = frontier[w.ch.pick_usize(frontier.len())];
            if q != p { vec![p, q] } else { vec![p] }
        } else {
            vec![p]
        };
        let c = w.commit(&parents);
        frontier.push(c);
    }
    for a in 0..w.actors.len() {
        if a == w.l && !w.actors[a].delegate {
            continue; // the fetcher has no namespace on the server unless it is a delegate
        }
        // bias towards shared tips (C03): 0 => the newest commit
        let c = match w.ch.weighted(&[4, 3, 3]) {
            0 => *w.commits.last().unwrap(),
            1 => w.commits[w.ch.pick_usize(w.commits.len())],
            _ => w.commits[w.commits.len() / 2],
        };
        let c = if c03 && w.ch.pick(2) == 0 { w.commits[1 + w.ch.pick_usize(3.min(w.commits.len() - 1))] } else { c };
        w.push(a, "master", c);
        let (n, cn) = (w.actors[a].name.clone(), w.cname(&c));
        w.res.trace.log("push", format!("{n} pushes master={cn} and signs"));
    }
    {
        let repo = w.server_repo();
        repo.set_identity_head().expect("set_identity_head");
        let _ = repo.set_head();
    }
    w.rounds(faults);
    w.res.steps = w.res.trace.count;
    w.res.nontrivial = w.res.counters.get("probe.fetch.success").copied().unwrap_or(0) + w.res.counters.get("probe.fetch.failed").copied().unwrap_or(0) + w.res.counters.get("probe.fetch.error").copied().unwrap_or(0) >= 1;
    let _ = BTreeSet::<u8>::new();
    w.res
}

impl<'a> World<'a> {
    fn rounds(&mut self, faults: bool) {
        // round 0: optional honest first contact (so that later fetches are pulls with prior state)
        let start_with_clone = self.ch.pick(3) != 0;
        if start_with_clone {
            self.ch.mark();
            let r = self.fetch(FaultScript::default(), 0);
            if r != "success" {
                // an honest server with all delegates present must be clonable
                self.res.trace.log("vacuity", format!("honest clone did not succeed: {r}"));
                self.res.hit("harness.honest_clone_failed");
                return;
            }
            self.res.hit("probe.fetch.honest_clone_ok");
        }
        let rounds = if self.own == "C03" { 2 + self.ch.pick_usize(5) } else { 1 + self.ch.pick_usize(3) };
        for _ in 0..rounds {
            self.ch.mark();
            self.tampered.clear();
            // the server evolves: per actor unchanged / honest advance / tampering
            for a in 0..self.actors.len() {
                if a == self.l && !self.actors[a].delegate {
                    continue;
                }
                let w = if self.broken.contains(&a) {
                    [1u32, 0, if faults { 1 } else { 0 }]
                } else if faults && self.own == "C02" {
                    [2, 2, 6]
                } else if faults {
                    [3, 3, 4]
                } else {
                    [3, 4, 0]
                };
                match self.ch.weighted(&w) {
                    0 => {}
                    1 if self.ch.pick(3) == 2 => {
                        // other honest owner actions: rewind a branch, create or delete a tag or a second branch
                        let nid = self.actors[a].nid.to_string();
                        let mine = Self::snapshot(&self.server_repo().backend).get(&nid).cloned().unwrap_or_default();
                        let n = self.actors[a].name.clone();
                        match self.ch.pick(4) {
                            0 => {
                                // force-push master back to its parent
                                let repo = self.server_repo();
                                let cur = mine.get("refs/heads/master").copied();
                                let parent = cur.and_then(|c| repo.backend.find_commit(*c).ok()).and_then(|c| c.parent_id(0).ok()).map(Oid::from);
                                if let Some(p) = parent {
                                    self.push_ref(a, "refs/heads/master", Some(p));
                                    self.res.hit("probe.fetch.owner_rewound_branch");
                                    let cn = self.cname(&p);
                                    self.res.trace.log("push-rewind", format!("{n} rewinds master to {cn} and signs"));
                                }
                            }
                            1 | 2 => {
                                let name = *self.ch.choose(&["refs/tags/v1", "refs/tags/v2", "refs/heads/feature", "refs/notes/commits"]);
                                let c = self.commits[self.ch.pick_usize(self.commits.len())];
                                self.push_ref(a, name, Some(c));
                                self.res.hit("probe.fetch.owner_set_other_ref");
                                let cn = self.cname(&c);
                                self.res.trace.log("push-other", format!("{n} sets {name}={cn} and signs"));
                            }
                            _ => {
                                let others: Vec<String> = mine.keys().filter(|k| k.starts_with("refs/tags/") || k.starts_with("refs/notes/") || k.as_str() == "refs/heads/feature").cloned().collect();
                                if !others.is_empty() {
                                    let name = others[self.ch.pick_usize(others.len())].clone();
                                    self.push_ref(a, &name, None);
                                    self.res.hit("probe.fetch.owner_deleted_ref");
                                    self.res.trace.log("push-delete", format!("{n} deletes {name} and signs"));
                                }
                            }
                        }
                    }
                    1 => {
                        let parent = *self.commits.last().unwrap();
                        let from = if self.ch.pick(3) == 0 { self.commits[self.ch.pick_usize(self.commits.len())] } else { parent };
                        let cur = Self::snapshot(&self.server_repo().backend).get(&self.actors[a].nid.to_string()).and_then(|m| m.get("refs/heads/master")).copied();
                        // sometimes a fast-forward to a commit another delegate is already on
                        let existing = if self.own == "C03" && self.ch.pick(2) == 0 {
                            let repo = self.server_repo();
                            cur.and_then(|cur| self.commits.iter().rev().find(|c| **c != cur && repo.backend.graph_descendant_of(***c, *cur).unwrap_or(false)).copied())
                        } else {
                            None
                        };
                        let c = match existing {
                            Some(c) => c,
                            None => self.commit(&[from]),
                        };
                        self.push(a, "master", c);
                        let (n, cn) = (self.actors[a].name.clone(), self.cname(&c));
                        self.res.trace.log("push", format!("{n} pushes master={cn} and signs"));
                    }
                    _ => self.tamper(a),
                }
            }
            self.ch.mark();
            let s = script(self.ch, faults);
            let mode = self.ch.weighted(&if faults { [3u32, 3, 1, 1] } else { [3, 3, 0, 0] }) as u8;
            if mode >= 2 {
                self.res.hit(if mode == 2 { "fault.announce.refs_at_lying" } else { "fault.announce.refs_at_forged_descendant" });
            }
            let _ = self.fetch(s, mode);
            if !self.res.violations.is_empty() {
                return;
            }
            if self.ch.pick(4) == 0 {
                self.ch.mark();
                self.clean();
            }
        }
    }
}

//! Operations of world C: honest actions through the cached public API, byzantine changes
//! written below the validation layer, syncs, partitions.

use std::collections::BTreeSet;

use nonempty::NonEmpty;
use radicle::cob::cache::StoreWriter;
use radicle::cob::issue::{self, Issues};
use radicle::cob::patch::{self, Patches};
use radicle::cob::store::encoding;
use radicle::cob::{Label, ObjectId, Reaction};
use radicle::identity::Did;
use radicle::storage::{ReadRepository, WriteRepository};
use radicle_cob::change::Storage as _;
use radicle_cob::object::Storage as _;

use super::World;
use crate::kit::json::catch;

pub fn open_cache(path: &std::path::Path) -> StoreWriter {
    StoreWriter::open(path).expect("cache open").with_migrations(radicle::cob::cache::migrate::ignore).expect("cache migrations")
}

/// Signs with one key and claims another: the change's signature does not verify.
struct Forged {
    claim: radicle::crypto::PublicKey,
    real: radicle::node::device::Device<radicle::crypto::test::signer::MockSigner>,
}

impl radicle::crypto::signature::Signer<radicle::crypto::ssh::ExtendedSignature> for Forged {
    fn try_sign(&self, msg: &[u8]) -> Result<radicle::crypto::ssh::ExtendedSignature, radicle::crypto::signature::Error> {
        let sig: radicle::crypto::Signature = radicle::crypto::signature::Signer::<radicle::crypto::Signature>::try_sign(&self.real, msg)?;
        Ok(radicle::crypto::ssh::ExtendedSignature { key: self.claim, sig })
    }
}

const TITLES: [&str; 4] = ["a title", "other title", "bad\ntitle", ""];
const BODIES: [&str; 3] = ["body", "another body", ""];

impl<'a> World<'a> {
    pub fn main_loop(&mut self) {
        let steps = if self.own == "C07" { 40 + self.ch.pick_usize(60) } else { 20 + self.ch.pick_usize(40) };
        for _ in 0..steps {
            self.ch.mark();
            let r = self.ch.pick_usize(self.reps.len());
            // 0 => sync (the benign, most frequent step)
            let mut w = [6u32, 3, 6, 2, 5, if self.faults { 3 } else { 0 }, if self.faults { 1 } else { 0 }];
            if self.own == "C07" {
                // this check wants comments, reviews and many actors on few objects
                w = [6, if self.issues.len() < 2 { 5 } else { 1 }, 7, if self.patches.len() < 2 { 5 } else { 1 }, 7, if self.faults { 1 } else { 0 }, if self.faults { 1 } else { 0 }];
            }
            if self.own == "C08" {
                // this check wants merges by several delegates and lifecycle actions after them
                w = [5, 1, 1, if self.patches.len() < 2 { 6 } else { 1 }, 10, if self.faults { 2 } else { 0 }, if self.faults { 1 } else { 0 }];
            }
            let wa = if !self.faults { 0 } else if self.own == "C07" { 9 } else { 2 };
            let w8 = [w[0], w[1], w[2], w[3], w[4], w[5], w[6], wa];
            match self.ch.weighted(&w8) {
                0 => self.sync(r),
                1 => {
                    let r = if self.own == "C07" && self.ch.pick(2) == 0 { (0..self.reps.len()).find(|i| self.reps[*i].delegate).unwrap_or(r) } else { r };
                    self.create_issue(r)
                }
                2 => self.issue_op(r),
                3 => {
                    let r = if self.own == "C07" && self.ch.pick(2) == 0 { (0..self.reps.len()).find(|i| self.reps[*i].delegate).unwrap_or(r) } else { r };
                    self.create_patch(r)
                }
                4 => self.patch_op(r),
                5 => self.byzantine(r),
                6 => self.partition(),
                _ => self.authz_byzantine(r),
            }
            if !self.res.violations.is_empty() {
                return;
            }
        }
        self.ch.mark();
        self.finish();
    }

    fn partition(&mut self) {
        let a = self.ch.pick_usize(self.reps.len());
        let b = self.ch.pick_usize(self.reps.len());
        if a == b {
            return;
        }
        let k = (a.min(b), a.max(b));
        if self.partitioned.remove(&k) {
            self.res.hit("fault.net.partition_healed");
        } else {
            self.partitioned.insert(k);
            self.res.hit("fault.net.partition");
        }
        self.res.trace.log("partition", format!("partition toggled between {} and {}", self.reps[k.0].name, self.reps[k.1].name));
    }

    pub fn sync(&mut self, x: usize) {
        let z = self.ch.pick_usize(self.reps.len());
        if z == x {
            return;
        }
        if self.partitioned.contains(&(x.min(z), x.max(z))) {
            self.res.hit("fault.net.sync_blocked");
            return;
        }
        // 0 => everything z has
        let ns = if self.ch.pick(3) == 0 || (self.own == "C08" && self.ch.pick(2) == 0) { None } else { Some(self.ch.pick_usize(self.reps.len())) };
        let ups = self.pull_refs(x, z, ns);
        self.res.hit("probe.cob.sync");
        if ns.is_some() {
            self.res.hit("fault.net.partial_sync");
        }
        self.res.trace.log("sync", format!("{} fetches {} from {} ({} ref update(s))", self.reps[x].name, ns.map(|k| format!("namespace {}", self.reps[k].name)).unwrap_or_else(|| "everything".into()), self.reps[z].name, ups.len()));
        // what the worker does after a fetch
        let repo = self.repo(x);
        let mut cache = open_cache(&self.reps[x].cache_path);
        if let Err(e) = radicle_node::worker::fetch::verif::cache_cobs(&self.rid, &ups, &repo, &mut cache) {
            self.res.trace.log("cache-cobs-error", format!("cache_cobs error: {}", crate::kit::json::normalise(&e.to_string())));
        }
        drop(cache);
        self.learn_objects(x);
        self.check_replica(x, "sync");
        self.check_list(x);
        self.check_pairwise();
    }

    /// Objects created by byzantine or remote actors become known to the harness through the refs.
    pub fn learn_objects(&mut self, x: usize) {
        let repo = self.repo(x);
        let mut names: Vec<String> = Vec::new();
        if let Ok(refs) = repo.backend.references_glob("refs/namespaces/*/refs/cobs/*") {
            for r in refs.flatten() {
                if let Some(name) = r.name() {
                    names.push(name.to_string());
                }
            }
        }
        for name in names {
            let parts: Vec<&str> = name.split('/').collect();
            // refs/namespaces/<ns>/refs/cobs/<type>/<id>
            if parts.len() == 7 {
                if let Ok(id) = parts[6].parse::<ObjectId>() {
                    if parts[5] == "xyz.radicle.issue" && !self.issues.contains(&id) {
                        self.issues.push(id);
                    } else if parts[5] == "xyz.radicle.patch" && !self.patches.contains(&id) {
                        self.patches.push(id);
                    }
                }
            }
        }
    }

    fn create_issue(&mut self, r: usize) {
        self.stamp(r);
        let title = *self.ch.choose(&TITLES[..2]);
        let c07d = self.own == "C07" && self.reps[r].delegate;
        let labels: Vec<Label> = if self.ch.pick(3) == 0 || c07d { vec![Label::new("bug").unwrap(), Label::new("ui").unwrap()] } else { vec![] };
        let assignees: Vec<Did> = if self.ch.pick(4) == 0 || c07d { vec![Did::from(self.reps[0].nid), Did::from(self.reps[1].nid)] } else { vec![] };
        let repo = self.repo(r);
        let existed_i: Vec<ObjectId> = self.issues.iter().copied().filter(|i| repo.backend.refname_to_id(&format!("refs/namespaces/{}/refs/cobs/{}/{}", self.reps[r].nid, &*issue::TYPENAME, i)).is_ok()).collect();
        let signer = self.reps[r].signer.clone();
        let cache = open_cache(&self.reps[r].cache_path);
        let mut issues = issue::Cache::open(Issues::open(&repo).expect("issues"), cache);
        let out = issues.create(title, "description", &labels, &assignees, [], &signer).map(|i| *i.id());
        drop(issues);
        match out {
            Ok(id) => {
                if !self.issues.contains(&id) {
                    self.issues.push(id);
                } else if existed_i.contains(&id) {
                    self.recreated.insert((r, true));
                    self.res.hit("fault.cob.identical_create");
                    self.res.trace.log("issue-recreated", format!("{} created an issue identical to its own {} in the same second: same object id", self.reps[r].name, self.oname(&id)));
                }
                self.note_labels(r, &id, labels.iter());
                self.note_assignees(r, &id, assignees.iter());
                self.res.hit("probe.cob.issue_created");
                self.res.trace.log("issue-create", format!("{} creates {} (labels={}, assignees={})", self.reps[r].name, self.oname(&id), labels.len(), assignees.len()));
            }
            Err(e) => {
                self.res.trace.log("issue-create-refused", format!("{} cannot create an issue: {}", self.reps[r].name, crate::kit::json::normalise(&e.to_string())));
            }
        }
        self.check_replica(r, "create-issue");
    }

    fn issue_op(&mut self, r: usize) {
        if self.issues.is_empty() {
            return;
        }
        let id = self.issues[self.ch.pick_usize(self.issues.len())];
        let r = if self.own == "C07" && self.ch.pick(3) == 0 {
            // delegates must act often enough for labels and assignees to exist
            let ds: Vec<usize> = (0..self.reps.len()).filter(|i| self.reps[*i].delegate).collect();
            ds[self.ch.pick_usize(ds.len())]
        } else {
            r
        };
        self.stamp(r);
        let repo = self.repo(r);
        let signer = self.reps[r].signer.clone();
        let cache = open_cache(&self.reps[r].cache_path);
        let mut issues = issue::Cache::open(Issues::open(&repo).expect("issues"), cache);
        let Ok(mut iss) = issues.get_mut(&id) else { return };
        let comments: Vec<radicle::cob::thread::CommentId> = iss.comments().map(|(c, _)| *c).collect();
        let a_comment = comments[self.ch.pick_usize(comments.len())];
        let which = if self.own == "C07" { self.ch.weighted(&[8, 2, 1, 2, 3, 3, 4, 3, 1, 0]) } else { self.ch.weighted(&[10, 6, 4, 4, 6, 4, 4, 4, 4, 1]) };
        let mut noted_labels: Option<Vec<Label>> = None;
        let mut noted_assignees: Option<Vec<Did>> = None;
        let mut remove = false;
        let (what, out): (&str, Result<(), String>) = match which {
            0 => ("comment", iss.comment(if self.ch.pick(4) == 0 { self.ch.choose(&BODIES).to_string() } else { self.tag(r, 'B') }, a_comment, [], &signer).map(|_| ()).map_err(|e| e.to_string())),
            1 => ("edit-title", iss.edit(if self.ch.pick(3) == 0 { self.ch.choose(&TITLES).to_string() } else { self.tag(r, 'T') }, &signer).map(|_| ()).map_err(|e| e.to_string())),
            2 => ("edit-description", iss.edit_description(*self.ch.choose(&BODIES), [], &signer).map(|_| ()).map_err(|e| e.to_string())),
            3 => {
                let st = if self.ch.pick(2) == 0 { issue::State::Closed { reason: if self.ch.pick(2) == 0 { issue::CloseReason::Solved } else { issue::CloseReason::Other } } } else { issue::State::Open };
                ("lifecycle", iss.lifecycle(st, &signer).map(|_| ()).map_err(|e| e.to_string()))
            }
            4 => ("edit-comment", iss.edit_comment(a_comment, if self.ch.pick(4) == 0 { self.ch.choose(&BODIES).to_string() } else { self.tag(r, 'B') }, [], &signer).map(|_| ()).map_err(|e| e.to_string())),
            5 => {
                let out = iss.redact_comment(a_comment, &signer).map(|_| ()).map_err(|e| e.to_string());
                if out.is_ok() {
                    self.authz.redacts.entry(a_comment).or_default().insert(r);
                }
                ("redact-comment", out)
            }
            6 => {
                let labels: Vec<Label> = [["bug"].as_slice(), ["bug", "ui"].as_slice(), [].as_slice()][self.ch.pick_usize(3)].iter().map(|l| Label::new(*l).unwrap()).collect();
                let out = iss.label(labels.clone(), &signer).map(|_| ()).map_err(|e| e.to_string());
                if out.is_ok() {
                    noted_labels = Some(labels);
                }
                ("label", out)
            }
            7 => {
                let who = self.ch.pick_usize(self.reps.len());
                let set: Vec<Did> = if self.ch.pick(3) == 0 { vec![] } else { vec![Did::from(self.reps[who].nid)] };
                let out = iss.assign(set.clone(), &signer).map(|_| ()).map_err(|e| e.to_string());
                if out.is_ok() {
                    noted_assignees = Some(set);
                }
                ("assign", out)
            }
            8 => ("react", iss.react(a_comment, Reaction::new('👍').unwrap(), self.ch.pick(2) == 0, &signer).map(|_| ()).map_err(|e| e.to_string())),
            _ => {
                remove = true;
                ("remove", Ok(()))
            }
        };
        drop(iss);
        let out = if remove {
            self.res.hit("probe.cob.issue_removed");
            issues.remove(&id, &signer).map_err(|e| e.to_string())
        } else {
            out
        };
        drop(issues);
        if let Some(l) = noted_labels {
            self.note_labels(r, &id, l.iter());
        }
        if let Some(a) = noted_assignees {
            self.note_assignees(r, &id, a.iter());
        }
        self.res.trace.log(&format!("issue-{what}{}", if out.is_ok() { "" } else { "-refused" }), format!("{} {what} on {} -> {}", self.reps[r].name, self.oname(&id), match &out { Ok(()) => "ok".to_string(), Err(e) => format!("refused ({})", crate::kit::json::normalise(e)) }));
        self.res.hit(if out.is_ok() { "probe.cob.issue_op_ok" } else { "probe.cob.issue_op_refused" });
        self.check_replica(r, what);
    }

    fn create_patch(&mut self, r: usize) {
        self.stamp(r);
        let (base, oid) = if self.ch.pick(2) == 0 { (self.commits[1], self.commits[2]) } else { (self.commits[0], self.commits[3]) };
        let repo = self.repo(r);
        let existed_p: Vec<ObjectId> = self.patches.iter().copied().filter(|i| repo.backend.refname_to_id(&format!("refs/namespaces/{}/refs/cobs/{}/{}", self.reps[r].nid, &*patch::TYPENAME, i)).is_ok()).collect();
        let signer = self.reps[r].signer.clone();
        let cache = open_cache(&self.reps[r].cache_path);
        let mut patches = patch::Cache::open(Patches::open(&repo).expect("patches"), cache);
        let plabels: Vec<Label> = if self.own == "C07" && self.reps[r].delegate { vec![Label::new("bug").unwrap(), Label::new("ui").unwrap()] } else { vec![] };
        let out = patches.create(*self.ch.choose(&TITLES[..2]), "patch description", patch::MergeTarget::Delegates, base, oid, &plabels, &signer).map(|p| *p.id());
        drop(patches);
        match out {
            Ok(id) => {
                if !self.patches.contains(&id) {
                    self.patches.push(id);
                } else if existed_p.contains(&id) {
                    self.recreated.insert((r, false));
                    self.res.hit("fault.cob.identical_create");
                    self.res.trace.log("patch-recreated", format!("{} created a patch identical to its own {} in the same second: same object id", self.reps[r].name, self.oname(&id)));
                }
                self.note_labels(r, &id, plabels.iter());
                self.res.hit("probe.cob.patch_created");
                self.res.trace.log("patch-create", format!("{} creates {} ({}..{})", self.reps[r].name, self.oname(&id), self.short(&base), self.short(&oid)));
            }
            Err(e) => self.res.trace.log("patch-create-refused", format!("{} cannot create a patch: {}", self.reps[r].name, crate::kit::json::normalise(&e.to_string()))),
        }
        self.check_replica(r, "create-patch");
    }

    fn patch_op(&mut self, r: usize) {
        if self.patches.is_empty() {
            return;
        }
        let id = self.patches[self.ch.pick_usize(self.patches.len())];
        let c08 = self.own == "C08";
        let r = if (c08 && self.ch.pick(4) != 3) || (self.own == "C07" && self.ch.pick(3) == 0) {
            // mostly a delegate acts
            let ds: Vec<usize> = (0..self.reps.len()).filter(|i| self.reps[*i].delegate).collect();
            ds[self.ch.pick_usize(ds.len())]
        } else {
            r
        };
        if c08 && self.ch.pick(2) == 0 {
            // the actor first catches up with somebody
            let z = self.ch.pick_usize(self.reps.len());
            if z != r && !self.partitioned.contains(&(r.min(z), r.max(z))) {
                let ups = self.pull_refs(r, z, None);
                self.res.hit("probe.cob.sync");
                self.res.trace.log("sync", format!("{} fetches everything from {} ({} ref update(s))", self.reps[r].name, self.reps[z].name, ups.len()));
                let repo = self.repo(r);
                let mut cache = open_cache(&self.reps[r].cache_path);
                let _ = radicle_node::worker::fetch::verif::cache_cobs(&self.rid, &ups, &repo, &mut cache);
            }
        }
        self.stamp(r);
        let repo = self.repo(r);
        let signer = self.reps[r].signer.clone();
        let cache = open_cache(&self.reps[r].cache_path);
        let mut patches = patch::Cache::open(Patches::open(&repo).expect("patches"), cache);
        let Ok(mut p) = patches.get_mut(&id) else { return };
        let revs: Vec<patch::RevisionId> = p.revisions().map(|(id, _)| id).collect();
        if revs.is_empty() {
            return;
        }
        let rev = revs[self.ch.pick_usize(revs.len())];
        let merged_before = matches!(p.state(), patch::State::Merged { .. });
        let reviews: Vec<patch::ReviewId> = p.revisions().flat_map(|(_, rv)| rv.reviews().map(|(_, r)| r.id()).collect::<Vec<_>>()).collect();
        let which = if c08 { self.ch.weighted(&[2, 2, 1, 9, 6, 2, 1, 0, 1, 0]) } else if self.own == "C07" { self.ch.weighted(&[8, 3, 7, 2, 2, 1, 2, 3, 6, 0]) } else { self.ch.weighted(&[8, 6, 6, 10, 6, 4, 4, 2, 4, 1]) };
        let mut p_remove = false;
        let mut p_noted_labels: Option<Vec<Label>> = None;
        let mut p_noted_assignees: Option<Vec<Did>> = None;
        let (what, out): (&str, Result<(), String>) = match which {
            0 => ("revision-comment", p.comment(rev, if self.ch.pick(4) == 0 { self.ch.choose(&BODIES).to_string() } else { self.tag(r, 'B') }, None, None, [], &signer).map(|_| ()).map_err(|e| e.to_string())),
            1 => {
                let oid = self.commits[2 + self.ch.pick_usize(2)];
                ("update", p.update("new revision", self.commits[0], oid, &signer).map(|_| ()).map_err(|e| e.to_string()))
            }
            2 => {
                let verdict = match self.ch.pick(3) {
                    0 => Some(patch::Verdict::Accept),
                    1 => Some(patch::Verdict::Reject),
                    _ => None,
                };
                ("review", p.review(rev, verdict, Some(self.tag(r, 'S')), vec![], &signer).map(|_| ()).map_err(|e| e.to_string()))
            }
            3 => {
                // merge: commit on the delegate's branch, or not an ancestor of it
                let commit = *self.ch.choose(&[self.commits[2], self.commits[2], self.commits[1], self.commits[3]]);
                ("merge", p.merge(rev, commit, &signer).map(|_| ()).map_err(|e| e.to_string()))
            }
            4 => {
                let st = match self.ch.pick(3) {
                    0 => patch::Lifecycle::Archived,
                    1 => patch::Lifecycle::Draft,
                    _ => patch::Lifecycle::Open,
                };
                ("lifecycle", p.lifecycle(st, &signer).map(|_| ()).map_err(|e| e.to_string()))
            }
            5 => ("redact-revision", p.redact(rev, &signer).map(|_| ()).map_err(|e| e.to_string())),
            6 => ("edit", p.edit::<_, String>(if self.ch.pick(3) == 0 { self.ch.choose(&TITLES).to_string() } else { self.tag(r, 'T') }, patch::MergeTarget::Delegates, &signer).map(|_| ()).map_err(|e| e.to_string())),
            7 => {
                let set: BTreeSet<Did> = [Did::from(self.reps[0].nid)].into_iter().collect();
                let out = p.assign(set.clone(), &signer).map(|_| ()).map_err(|e| e.to_string());
                if out.is_ok() {
                    p_noted_assignees = Some(set.into_iter().collect());
                }
                ("assign", out)
            }
            9 => {
                p_remove = true;
                ("remove", Ok(()))
            }
            _ => {
                if reviews.is_empty() {
                    let out = p.label([Label::new("wip").unwrap()], &signer).map(|_| ()).map_err(|e| e.to_string());
                    if out.is_ok() {
                        p_noted_labels = Some(vec![Label::new("wip").unwrap()]);
                    }
                    ("label", out)
                } else {
                    let rv = reviews[self.ch.pick_usize(reviews.len())];
                    let out = p.redact_review(rv, &signer).map(|_| ()).map_err(|e| e.to_string());
                    if out.is_ok() {
                        self.authz.redacts.entry(*rv).or_default().insert(r);
                    }
                    ("redact-review", out)
                }
            }
        };
        let merged_after = matches!(p.state(), patch::State::Merged { .. });
        drop(p);
        let out = if p_remove {
            self.res.hit("probe.cob.patch_removed");
            patches.remove(&id, &signer).map_err(|e| e.to_string())
        } else {
            out
        };
        drop(patches);
        if let Some(l) = p_noted_labels {
            self.note_labels(r, &id, l.iter());
        }
        if let Some(a) = p_noted_assignees {
            self.note_assignees(r, &id, a.iter());
        }
        if merged_before && what == "lifecycle" {
            self.res.hit("probe.c08.lifecycle_on_merged_patch");
            if !merged_after {
                let own = self.own.clone();
                self.res.violate(&own, "C08", "C08/lifecycle-moved-merged-patch", format!("{}: a lifecycle action by {} moved the merged {} out of the merged state", self.reps[r].name, self.reps[r].name, self.oname(&id)));
            }
        }
        self.res.trace.log(&format!("patch-{what}{}", if out.is_ok() { "" } else { "-refused" }), format!("{} {what} on {} -> {}", self.reps[r].name, self.oname(&id), match &out { Ok(()) => "ok".to_string(), Err(e) => format!("refused ({})", crate::kit::json::normalise(e)) }));
        self.res.hit(if out.is_ok() { "probe.cob.patch_op_ok" } else { "probe.cob.patch_op_refused" });
        if what == "merge" && out.is_ok() {
            self.res.hit("probe.cob.merge_recorded");
        }
        self.check_replica(r, what);
    }

    /// A change written below the validation layer: several actions of which a later one is
    /// rejected by the object type, an action the author is not authorised for, or a garbage payload.
    fn byzantine(&mut self, r: usize) {
        let pool: Vec<(bool, ObjectId)> = self.issues.iter().map(|i| (true, *i)).chain(self.patches.iter().map(|p| (false, *p))).collect();
        if pool.is_empty() {
            return;
        }
        let (is_issue, id) = pool[self.ch.pick_usize(pool.len())];
        self.stamp(r);
        let repo = self.repo(r);
        let signer = self.reps[r].signer.clone();
        let nid = self.reps[r].nid;
        let identity = match repo.identity_head() {
            Ok(h) => h,
            Err(_) => return,
        };
        let kind;
        let type_name;
        let mut forged = false;
        let (tips, contents): (Vec<radicle::git::Oid>, Vec<Vec<u8>>) = if is_issue {
            type_name = issue::TYPENAME.clone();
            let Ok(Some(obj)) = radicle::cob::get::<issue::Issue, _>(&repo, &type_name, &id) else { return };
            let root = *obj.object.root().0;
            let missing: radicle::cob::thread::CommentId = self.commits[0]; // not a comment of this issue
            let acts: Vec<issue::Action> = match self.ch.pick(6) {
                5 => {
                    // one action that is rejected inside the thread (the target does not exist)
                    kind = "single-action-on-missing-target";
                    match self.ch.pick(3) {
                        0 => vec![issue::Action::CommentEdit { id: missing, body: self.tag(r, 'B'), embeds: vec![] }],
                        1 => vec![issue::Action::CommentRedact { id: missing }],
                        _ => vec![issue::Action::CommentReact { id: missing, reaction: Reaction::new('🎉').unwrap(), active: true }],
                    }
                }
                4 => {
                    kind = "forged-signature";
                    forged = true;
                    if self.ch.pick(2) == 0 {
                        vec![issue::Action::Edit { title: self.tag(r, 'T').into() }]
                    } else {
                        vec![issue::Action::Lifecycle { state: issue::State::Closed { reason: issue::CloseReason::Other } }, issue::Action::Comment { body: self.tag(r, 'B'), reply_to: Some(root), embeds: vec![] }]
                    }
                }
                0 => {
                    kind = "valid-edit-then-invalid-title";
                    vec![issue::Action::Edit { title: self.tag(r, 'T').into() }, issue::Action::Edit { title: "bad\ntitle".into() }]
                }
                1 => {
                    kind = "valid-comment-then-comment-on-missing-parent";
                    vec![issue::Action::Comment { body: "smuggled comment".into(), reply_to: Some(root), embeds: vec![] }, issue::Action::Comment { body: "orphan".into(), reply_to: Some(missing), embeds: vec![] }]
                }
                2 => {
                    kind = "valid-lifecycle-then-unauthorized-label";
                    vec![issue::Action::Comment { body: "smuggled".into(), reply_to: Some(root), embeds: vec![] }, issue::Action::Label { labels: [Label::new("smuggled").unwrap()].into_iter().collect() }, issue::Action::Edit { title: "bad\rtitle".into() }]
                }
                _ => {
                    kind = "valid-react-then-redact-root";
                    vec![issue::Action::CommentReact { id: root, reaction: Reaction::new('🎉').unwrap(), active: true }, issue::Action::CommentRedact { id: root }]
                }
            };
            (obj.history.tips().into_iter().collect(), acts.iter().map(|a| encoding::encode(a).unwrap()).collect())
        } else {
            type_name = patch::TYPENAME.clone();
            let Ok(Some(obj)) = radicle::cob::get::<patch::Patch, _>(&repo, &type_name, &id) else { return };
            let (rev, _) = obj.object.root();
            let acts: Vec<patch::Action> = match self.ch.pick(5) {
                4 => {
                    kind = "single-action-on-missing-target";
                    let missing_c = self.commits[0];
                    match self.ch.pick(4) {
                        0 => vec![patch::Action::RevisionCommentEdit { revision: rev, comment: missing_c, body: self.tag(r, 'B'), embeds: vec![] }],
                        1 => vec![patch::Action::RevisionCommentRedact { revision: rev, comment: missing_c }],
                        2 => vec![patch::Action::ReviewEdit { review: patch::ReviewId::from(missing_c), summary: Some(self.tag(r, 'S')), verdict: None, labels: vec![] }],
                        _ => vec![patch::Action::RevisionEdit { revision: patch::RevisionId::from(missing_c), description: self.tag(r, 'B'), embeds: vec![] }],
                    }
                }
                3 => {
                    kind = "forged-signature";
                    forged = true;
                    if self.ch.pick(2) == 0 {
                        vec![patch::Action::Edit { title: self.tag(r, 'T').into(), target: patch::MergeTarget::Delegates }]
                    } else {
                        vec![patch::Action::Lifecycle { state: patch::Lifecycle::Archived }, patch::Action::RevisionComment { revision: rev, body: self.tag(r, 'B'), reply_to: None, location: None, embeds: vec![] }]
                    }
                }
                0 => {
                    kind = "valid-edit-then-merge-by-non-delegate-or-bad-title";
                    vec![patch::Action::Edit { title: self.tag(r, 'T').into(), target: patch::MergeTarget::Delegates }, patch::Action::Edit { title: "bad\ntitle".into(), target: patch::MergeTarget::Delegates }]
                }
                1 => {
                    kind = "valid-label-then-review-of-missing-revision";
                    vec![patch::Action::RevisionComment { revision: rev, body: "smuggled".into(), reply_to: None, location: None, embeds: vec![] }, patch::Action::RevisionComment { revision: patch::RevisionId::from(self.commits[0]), body: "orphan".into(), reply_to: None, location: None, embeds: vec![] }, patch::Action::Edit { title: "x\ny".into(), target: patch::MergeTarget::Delegates }]
                }
                _ => {
                    kind = "valid-lifecycle-then-invalid-title";
                    vec![patch::Action::Lifecycle { state: patch::Lifecycle::Archived }, patch::Action::Edit { title: "bad\ntitle".into(), target: patch::MergeTarget::Delegates }]
                }
            };
            (obj.history.tips().into_iter().collect(), acts.iter().map(|a| encoding::encode(a).unwrap()).collect())
        };
        let Some(contents) = NonEmpty::from_vec(contents) else { return };
        // a forged change claims to be by a delegate (who may do everything) and is signed by the writer
        let claim = self.reps.iter().find(|x| x.delegate && x.nid != nid).map(|x| x.nid);
        if forged && claim.is_none() {
            return;
        }
        let forger = Forged { claim: claim.unwrap_or(nid), real: signer.clone() };
        let out = catch(|| -> Result<(), String> {
            let template = radicle_cob::change::Template { type_name: type_name.clone(), tips, message: "byzantine change".to_string(), embeds: vec![], contents };
            let entry = if forged { repo.store(Some(identity), vec![], &forger, template) } else { repo.store(Some(identity), vec![], &signer, template) }.map_err(|e| e.to_string())?;
            repo.update(&nid, &type_name, &id, &entry.id).map_err(|e| e.to_string())?;
            use radicle::storage::SignRepository;
            repo.sign_refs(&signer).map_err(|e| e.to_string())?;
            Ok(())
        });
        match out {
            Ok(Ok(())) => {
                self.res.hit("fault.cob.byzantine_change");
                self.res.hit(&format!("fault.cob.byzantine.{kind}"));
                self.res.trace.log(&format!("byzantine-{kind}"), format!("{} writes a raw change on {}: {kind}", self.reps[r].name, self.oname(&id)));
            }
            Ok(Err(e)) => self.res.trace.log("byzantine-error", format!("raw change could not be written: {}", crate::kit::json::normalise(&e))),
            Err(p) => self.res.trace.log("byzantine-panic", format!("raw change panicked: {}", p.message)),
        }
        // the author's own cache is updated by whoever wrote the change in reality; here: as after a fetch
        let ups = vec![radicle::storage::RefUpdate::Skipped { name: radicle::git::RefString::try_from("refs/heads/none").unwrap(), oid: self.commits[0] }];
        let _ = ups;
        let mut cache = open_cache(&self.reps[r].cache_path);
        let name = radicle::git::RefString::try_from(format!("refs/namespaces/{nid}/refs/cobs/{type_name}/{id}")).expect("refname");
        let up = radicle::storage::RefUpdate::Updated { name, old: self.commits[0], new: self.commits[0] };
        let _ = radicle_node::worker::fetch::verif::cache_cobs(&self.rid, &[up], &repo, &mut cache);
        drop(cache);
        let _ = WriteRepository::raw(&repo);
        self.check_replica(r, "byzantine");
    }
}

//! Oracles of world C.

use std::collections::{BTreeMap, BTreeSet};

use radicle::cob::cache::{NoCache, StoreWriter};
use radicle::cob::issue::cache::Issues as IssuesQ;
use radicle::cob::issue::{self, Issues};
use radicle::cob::patch::cache::Patches as PatchesQ;
use radicle::cob::patch::{self, Patches};
use radicle::cob::{ObjectId, TypeName};
use radicle::git::Oid;
use radicle::storage::git::Repository;
use radicle::storage::ReadRepository;

use super::ops::open_cache;
use super::World;

fn json<T: serde::Serialize>(t: &T) -> String {
    serde_json::to_string(t).unwrap_or_else(|e| format!("<unserialisable: {e}>"))
}

/// Evaluate an object: (state as JSON, retained entry ids in evaluation-independent order, tips).
pub fn eval(repo: &Repository, is_issue: bool, id: &ObjectId) -> Option<(String, Vec<Oid>, BTreeSet<Oid>)> {
    if is_issue {
        let o = radicle::cob::get::<issue::Issue, _>(repo, &issue::TYPENAME, id).ok()??;
        let mut ids: Vec<Oid> = o.history.graph().sorted().into_iter().collect();
        ids.sort();
        Some((json(&o.object), ids, o.history.tips()))
    } else {
        let o = radicle::cob::get::<patch::Patch, _>(repo, &patch::TYPENAME, id).ok()??;
        let mut ids: Vec<Oid> = o.history.graph().sorted().into_iter().collect();
        ids.sort();
        Some((json(&o.object), ids, o.history.tips()))
    }
}

/// The tips of an object over all namespaces of a repository (what the loader starts from).
pub fn ref_tips(repo: &Repository, type_name: &TypeName, id: &ObjectId) -> BTreeSet<Oid> {
    let mut out = BTreeSet::new();
    if let Ok(refs) = repo.backend.references_glob(&format!("refs/namespaces/*/refs/cobs/{type_name}/{id}")) {
        for r in refs.flatten() {
            if let Some(t) = r.target() {
                out.insert(t.into());
            }
        }
    }
    out
}

impl<'a> World<'a> {
    fn objects(&self) -> Vec<(bool, ObjectId)> {
        self.issues.iter().map(|i| (true, *i)).chain(self.patches.iter().map(|p| (false, *p))).collect()
    }

    /// After an operation on replica `r`: cache == direct evaluation (C09), merged only by a
    /// threshold (C08), re-evaluation is stable (C05).
    pub fn check_replica(&mut self, r: usize, after: &str) {
        let own = self.own.clone();
        let repo = self.repo(r);
        let name = self.reps[r].name.clone();
        // ---- C05 (iii): two evaluations of the same repository in one process agree
        for (is_issue, id) in self.objects() {
            let a = eval(&repo, is_issue, &id);
            let b = eval(&repo, is_issue, &id);
            if a != b {
                self.res.violate(&own, "C05", "C05/re-evaluation-differs", format!("{name}: evaluating {} twice from the same repository gave different results", self.oname(&id)));
            }
        }
        // ---- C08
        for id in self.patches.clone() {
            let Ok(Some(obj)) = radicle::cob::get::<patch::Patch, _>(&repo, &patch::TYPENAME, &id) else { continue };
            let p = &obj.object;
            if let patch::State::Open { conflicts } = p.state() {
                if !conflicts.is_empty() {
                    self.res.hit("probe.c08.conflicting_merges_seen");
                }
                if self.threshold >= 2 && p.merges().count() >= 1 {
                    self.res.hit("probe.c08.open_with_merges_below_threshold");
                }
            }
            if let patch::State::Merged { revision, commit } = p.state() {
                self.res.hit("probe.c08.merged_state_seen");
                if self.threshold >= 2 {
                    self.res.hit("probe.c08.merged_with_threshold_2_or_more");
                }
                let delegates: Vec<usize> = (0..self.reps.len()).filter(|i| self.reps[*i].delegate).collect();
                // every merge of (revision, commit) recorded in the retained history, by author
                let mut recorded: BTreeSet<radicle::node::NodeId> = BTreeSet::new();
                for k in obj.history.graph().sorted() {
                    let Some(node) = obj.history.graph().get(&k) else { continue };
                    let e = &node.value;
                    for c in e.contents().iter() {
                        if let Ok(patch::Action::Merge { revision: r2, commit: c2 }) = serde_json::from_slice::<patch::Action>(c) {
                            if r2 == *revision && c2 == *commit {
                                recorded.insert(*e.author());
                            }
                        }
                    }
                }
                let mut agreeing = 0;
                for d in &delegates {
                    let nid = self.reps[*d].nid;
                    if !recorded.contains(&nid) {
                        continue;
                    }
                    // the commit must be on the merging delegate's default branch in this replica
                    let head = repo.backend.refname_to_id(&format!("refs/namespaces/{nid}/refs/heads/master")).ok();
                    let on_branch = match head {
                        Some(h) => h == **commit || repo.backend.graph_descendant_of(h, **commit).unwrap_or(false),
                        None => false,
                    };
                    if on_branch {
                        agreeing += 1;
                    } else if p.merges().any(|(a, m)| *a == nid && m.revision == *revision && m.commit == *commit) {
                        self.res.violate(&own, "C08", "C08/merge-commit-not-on-delegate-branch", format!("{name}: {} is merged at {} and counts the merge of delegate {} whose default branch does not contain that commit here", self.oname(&id), self.short(commit), self.reps[*d].name));
                    }
                }
                if agreeing < self.threshold {
                    self.res.violate(&own, "C08", "C08/merged-below-threshold", format!("{name}: {} is reported merged at ({:.7}, {}) with {agreeing} agreeing delegate merge(s), threshold {}", self.oname(&id), revision.to_string(), self.short(commit), self.threshold));
                } else if agreeing == self.threshold {
                    self.res.hit("probe.c08.merged_exactly_at_threshold");
                }
            }
        }
        // ---- C09
        let cache: StoreWriter = open_cache(&self.reps[r].cache_path);
        {
            let cached = issue::Cache::open(Issues::open(&repo).expect("issues"), cache);
            let direct = issue::Cache::<_, NoCache>::no_cache(&repo).expect("no cache");
            let mut pool: Vec<ObjectId> = self.issues.clone();
            pool.extend(self.patches.iter().copied().take(1));
            pool.push(ObjectId::from(self.commits[0]));
            for id in &pool {
                let a = cached.get(id).map(|o| o.map(|x| json(&x))).map_err(|e| e.to_string());
                let b = direct.get(id).map(|o| o.map(|x| json(&x))).map_err(|e| e.to_string());
                self.cmp(&own, &name, after, "issue-get", &self.oname(id), a, b);
            }
            let la: Result<BTreeMap<String, String>, String> = cached.list().map_err(|e| e.to_string()).and_then(|it| it.map(|x| x.map(|(i, o)| (i.to_string(), json(&o))).map_err(|e| e.to_string())).collect());
            let lb: Result<BTreeMap<String, String>, String> = direct.list().map_err(|e| e.to_string()).and_then(|it| it.map(|x| x.map(|(i, o)| (i.to_string(), json(&o))).map_err(|e| e.to_string())).collect());
            self.cmp(&own, &name, after, "issue-list", "all", la.map(Some), lb.map(Some));
            for st in [issue::State::Open, issue::State::Closed { reason: issue::CloseReason::Solved }, issue::State::Closed { reason: issue::CloseReason::Other }] {
                let la: Result<BTreeSet<String>, String> = cached.list_by_status(&st).map_err(|e| e.to_string()).and_then(|it| it.map(|x| x.map(|(i, _)| i.to_string()).map_err(|e| e.to_string())).collect());
                let lb: Result<BTreeSet<String>, String> = direct.list_by_status(&st).map_err(|e| e.to_string()).and_then(|it| it.map(|x| x.map(|(i, _)| i.to_string()).map_err(|e| e.to_string())).collect());
                self.cmp(&own, &name, after, "issue-list-by-status", &st.to_string(), la.map(Some), lb.map(Some));
            }
            let ca = IssuesQ::counts(&cached).map(|c| Some(format!("{c:?}"))).map_err(|e| e.to_string());
            let cb = IssuesQ::counts(&direct).map(|c| Some(format!("{c:?}"))).map_err(|e| e.to_string());
            self.cmp(&own, &name, after, "issue-counts", "all", ca, cb);
        }
        let cache: StoreWriter = open_cache(&self.reps[r].cache_path);
        {
            let cached = patch::Cache::open(Patches::open(&repo).expect("patches"), cache);
            let direct = patch::Cache::<_, NoCache>::no_cache(&repo).expect("no cache");
            let mut pool: Vec<ObjectId> = self.patches.clone();
            pool.push(ObjectId::from(self.commits[1]));
            let mut rev_pool: Vec<(String, patch::RevisionId)> = Vec::new();
            for id in &pool {
                let a = cached.get(id).map(|o| o.map(|x| json(&x))).map_err(|e| e.to_string());
                let b = direct.get(id).map(|o| o.map(|x| json(&x))).map_err(|e| e.to_string());
                self.cmp(&own, &name, after, "patch-get", &self.oname(id), a, b);
                // identifier pool for find_by_revision: revisions (also redacted ones), comments, reviews, the patch id itself
                if let Ok(Some(obj)) = radicle::cob::get::<patch::Patch, _>(&repo, &patch::TYPENAME, id) {
                    for k in obj.history.graph().sorted() {
                        rev_pool.push(("entry".into(), patch::RevisionId::from(k)));
                    }
                }
            }
            rev_pool.push(("unknown".into(), patch::RevisionId::from(self.commits[3])));
            rev_pool.truncate(40);
            for (kind, rid) in rev_pool {
                let a = cached.find_by_revision(&rid).map(|o| o.map(|x| format!("{}:{}", x.id, json(&x.revision)))).map_err(|e| e.to_string());
                let b = direct.find_by_revision(&rid).map(|o| o.map(|x| format!("{}:{}", x.id, json(&x.revision)))).map_err(|e| e.to_string());
                self.cmp(&own, &name, after, "patch-find-by-revision", &kind, a, b);
            }
            let la: Result<BTreeMap<String, String>, String> = cached.list().map_err(|e| e.to_string()).and_then(|it| it.map(|x| x.map(|(i, o)| (i.to_string(), json(&o))).map_err(|e| e.to_string())).collect());
            let lb: Result<BTreeMap<String, String>, String> = direct.list().map_err(|e| e.to_string()).and_then(|it| it.map(|x| x.map(|(i, o)| (i.to_string(), json(&o))).map_err(|e| e.to_string())).collect());
            self.cmp(&own, &name, after, "patch-list", "all", la.map(Some), lb.map(Some));
            for st in [patch::Status::Open, patch::Status::Draft, patch::Status::Archived, patch::Status::Merged] {
                let la: Result<BTreeSet<String>, String> = cached.list_by_status(&st).map_err(|e| e.to_string()).and_then(|it| it.map(|x| x.map(|(i, _)| i.to_string()).map_err(|e| e.to_string())).collect());
                let lb: Result<BTreeSet<String>, String> = direct.list_by_status(&st).map_err(|e| e.to_string()).and_then(|it| it.map(|x| x.map(|(i, _)| i.to_string()).map_err(|e| e.to_string())).collect());
                self.cmp(&own, &name, after, "patch-list-by-status", &st.to_string(), la.map(Some), lb.map(Some));
            }
            let ca = PatchesQ::counts(&cached).map(|c| Some(format!("{c:?}"))).map_err(|e| e.to_string());
            let cb = PatchesQ::counts(&direct).map(|c| Some(format!("{c:?}"))).map_err(|e| e.to_string());
            self.cmp(&own, &name, after, "patch-counts", "all", ca, cb);
        }
        self.res.hit("probe.c09.replica_compared");
        if self.own == "C07" || self.own == "*" {
            self.check_authz(r);
        }
    }

    #[allow(clippy::too_many_arguments)]
    fn cmp<T: PartialEq + std::fmt::Debug>(&mut self, own: &str, rep: &str, after: &str, query: &str, arg: &str, cached: Result<Option<T>, String>, direct: Result<Option<T>, String>) {
        let verdict = match (&cached, &direct) {
            (Ok(a), Ok(b)) if a == b => None,
            (Ok(_), Ok(_)) => Some("differs"),
            (Err(_), Err(_)) => None,
            (Err(_), Ok(_)) => Some("cache-error"),
            (Ok(_), Err(_)) => Some("direct-error"),
        };
        if let Some(v) = verdict {
            let show = |x: &Result<Option<T>, String>| match x {
                Ok(Some(v)) => {
                    let s = format!("{v:?}");
                    format!("Some({}..)", &s[..s.len().min(160)])
                }
                Ok(None) => "None".to_string(),
                Err(e) => format!("Err({})", crate::kit::json::normalise(e)),
            };
            self.res.trace.log("cache-mismatch", format!("CACHE MISMATCH on {rep} after {after}: {query}({arg}) {v}: cached {} vs direct {}", show(&cached), show(&direct)));
            let r = self.reps.iter().position(|x| x.name == rep).unwrap_or(usize::MAX);
            let class = if self.recreated.contains(&(r, query.starts_with("issue"))) {
                format!("C09/after-identical-create/{}", if query.starts_with("issue") { "issue" } else { "patch" })
            } else {
                format!("C09/{query}/{v}")
            };
            self.res.violate(own, "C09", &class, format!("{rep} after {after}: {query}({arg}): the cache answers {} but direct evaluation gives {}", show(&cached), show(&direct)));
        }
    }

    /// C05 (iv): enumerating the objects of a type (`cob::list`, what `all()`, counts and cache
    /// population use) evaluates every object exactly like `cob::get` from the same repository.
    pub fn check_list(&mut self, r: usize) {
        let own = self.own.clone();
        let repo = self.repo(r);
        let name = self.reps[r].name.clone();
        let mut listed: BTreeMap<ObjectId, String> = BTreeMap::new();
        if let Ok(v) = radicle::cob::list::<issue::Issue, _>(&repo, &issue::TYPENAME) {
            for o in v {
                listed.insert(*o.id(), json(&o.object));
            }
        }
        if let Ok(v) = radicle::cob::list::<patch::Patch, _>(&repo, &patch::TYPENAME) {
            for o in v {
                listed.insert(*o.id(), json(&o.object));
            }
        }
        for (is_issue, id) in self.objects() {
            let Some((state, _, _)) = eval(&repo, is_issue, &id) else { continue };
            self.res.hit("probe.c05.list_compared_with_get");
            match listed.get(&id) {
                Some(l) if *l == state => {}
                Some(_) => self.res.violate(&own, "C05", "C05/list-differs-from-get", format!("{name}: enumerating the objects evaluates {} differently from loading it by id (same repository, same changes)", self.oname(&id))),
                None => self.res.violate(&own, "C05", "C05/list-misses-object", format!("{name}: {} evaluates when loaded by id but is missing from the enumeration", self.oname(&id))),
            }
        }
    }

    /// C05 (i): replicas whose refs point at the same tips of an object evaluate it identically.
    pub fn check_pairwise(&mut self) {
        let own = self.own.clone();
        let repos: Vec<Repository> = (0..self.reps.len()).map(|r| self.repo(r)).collect();
        for (is_issue, id) in self.objects() {
            let tn = if is_issue { issue::TYPENAME.clone() } else { patch::TYPENAME.clone() };
            let tips: Vec<BTreeSet<Oid>> = repos.iter().map(|r| ref_tips(r, &tn, &id)).collect();
            for a in 0..repos.len() {
                for b in a + 1..repos.len() {
                    if tips[a].is_empty() || tips[a] != tips[b] {
                        continue;
                    }
                    self.res.hit("probe.c05.same_tips_compared");
                    let ea = eval(&repos[a], is_issue, &id);
                    let eb = eval(&repos[b], is_issue, &id);
                    if ea != eb {
                        let what = match (&ea, &eb) {
                            (Some(x), Some(y)) if x.1 != y.1 => "retained-history-differs",
                            (Some(_), Some(_)) => "state-differs",
                            _ => "one-side-fails",
                        };
                        self.res.trace.log("diverged", format!("DIVERGED {} on {} vs {}: {what}", self.oname(&id), self.reps[a].name, self.reps[b].name));
                        self.res.violate(&own, "C05", &format!("C05/same-tips/{what}"), format!("{} and {} hold the same tips of {} but evaluate it differently ({what})", self.reps[a].name, self.reps[b].name, self.oname(&id)));
                    }
                }
            }
        }
    }

    /// Anti-entropy, then: everybody agrees (C05), and evaluating only what was retained gives
    /// the same state (C06).
    pub fn finish(&mut self) {
        let own = self.own.clone();
        self.partitioned.clear();
        for _round in 0..2 {
            for x in 0..self.reps.len() {
                for z in 0..self.reps.len() {
                    if x != z {
                        self.pull_refs(x, z, None);
                    }
                }
            }
        }
        for x in 0..self.reps.len() {
            self.learn_objects(x);
        }
        self.res.trace.log("anti-entropy", "anti-entropy: everybody fetched everything from everybody, twice".to_string());
        let repos: Vec<Repository> = (0..self.reps.len()).map(|r| self.repo(r)).collect();
        for (is_issue, id) in self.objects() {
            let e0 = eval(&repos[0], is_issue, &id);
            for (i, r) in repos.iter().enumerate().skip(1) {
                let ei = eval(r, is_issue, &id);
                if ei != e0 {
                    let tn = if is_issue { issue::TYPENAME.clone() } else { patch::TYPENAME.clone() };
                    let (t0, ti) = (ref_tips(&repos[0], &tn, &id), ref_tips(r, &tn, &id));
                    let d = match (&e0, &ei) {
                        (Some(a), Some(b)) => format!("retained {} vs {}, tips {} vs {}, state equal: {}, ref tips equal: {} ({} vs {})", a.1.len(), b.1.len(), a.2.len(), b.2.len(), a.0 == b.0, t0 == ti, t0.len(), ti.len()),
                        (a, b) => format!("evaluates: {} vs {}", a.is_some(), b.is_some()),
                    };
                    self.res.trace.log("ae-diff", format!("after anti-entropy {} differs between {} and {}: {d}", self.oname(&id), self.reps[0].name, self.reps[i].name));
                    if t0 != ti {
                        // the replicas do not hold the same refs: the harness' anti-entropy is incomplete
                        self.res.hit("harness.anti_entropy_incomplete");
                        return;
                    }
                    self.res.violate(&own, "C05", "C05/after-anti-entropy/replicas-differ", format!("after anti-entropy {} and {} evaluate {} differently", self.reps[0].name, self.reps[i].name, self.oname(&id)));
                    return;
                }
            }
            self.res.hit("probe.c05.converged_object");
            // C06: a view whose refs point exactly at the retained tips
            let Some((state, ids, tips)) = e0 else { continue };
            let tn = if is_issue { issue::TYPENAME.clone() } else { patch::TYPENAME.clone() };
            let all_tips = ref_tips(&repos[0], &tn, &id);
            let dropped = all_tips != tips;
            if dropped {
                self.res.hit("probe.c06.object_with_dropped_changes");
            }
            // C05 (ii): the same closure loaded through other references: the tips handed to other
            // namespaces in reverse order, plus redundant references to the root and to an inner change
            {
                let mut other: Vec<Oid> = all_tips.iter().rev().copied().collect();
                other.push(Oid::from(*id));
                if !ids.is_empty() {
                    other.push(ids[self.ch.pick_usize(ids.len())]);
                }
                match self.view(&repos[0], &tn, &id, &other) {
                    Some(view) => match eval(&view, is_issue, &id) {
                        Some((vstate, vids, _)) if vstate == state && vids == ids => self.res.hit("probe.c05.same_closure_other_refs"),
                        Some((vstate, vids, _)) => {
                            let what = if vids != ids { "retained-history-differs" } else { "state-differs" };
                            let _ = vstate;
                            self.res.violate(&own, "C05", &format!("C05/same-closure-other-refs/{what}"), format!("{}: the same changes referenced from other namespaces, in another order and with redundant references, evaluate differently ({what})", self.oname(&id)));
                        }
                        None => self.res.violate(&own, "C05", "C05/same-closure-other-refs/does-not-evaluate", format!("{}: the same changes referenced from other namespaces do not evaluate", self.oname(&id))),
                    },
                    None => self.res.hit("harness.view_failed"),
                }
            }
            // C08: a replica that has not replicated the default branch of a merging delegate must not count
            // that delegate's merge (same changes, one reference less)
            if !is_issue {
                if let Ok(Some(obj)) = radicle::cob::get::<patch::Patch, _>(&repos[0], &patch::TYPENAME, &id) {
                    let mergers: Vec<radicle::node::NodeId> = obj.object.merges().map(|(a, _)| *a).collect();
                    for m in mergers.into_iter().take(2) {
                        let missing = format!("refs/namespaces/{m}/refs/heads/master");
                        let all: Vec<Oid> = all_tips.iter().copied().collect();
                        if let Some(v) = self.view_without(&repos[0], &tn, &id, &all, Some(&missing)) {
                            if let Ok(Some(o2)) = radicle::cob::get::<patch::Patch, _>(&v, &patch::TYPENAME, &id) {
                                self.res.hit("probe.c08.evaluated_without_a_merging_delegates_branch");
                                if o2.object.merges().any(|(a, _)| *a == m) {
                                    self.res.violate(&own, "C08", "C08/merge-counted-without-default-branch", format!("{}: on a replica without the default branch of {} its merge is still recorded", self.oname(&id), self.who_key(&m)));
                                }
                            }
                        }
                    }
                }
            }
            let tips_v: Vec<Oid> = tips.iter().copied().collect();
            match self.view(&repos[0], &tn, &id, &tips_v) {
                Some(view) => {
                    let ev = eval(&view, is_issue, &id);
                    match ev {
                        Some((vstate, vids, _)) => {
                            if vids != ids {
                                self.res.violate(&own, "C06", "C06/retained-set-not-closed", format!("{}: evaluating only the retained changes retains a different set ({} vs {} entries)", self.oname(&id), vids.len(), ids.len()));
                            } else if vstate != state {
                                self.res.trace.log("trace-of-rejected", format!("REJECTED CHANGE LEFT A TRACE in {}", self.oname(&id)));
                                self.res.violate(&own, "C06", &format!("C06/rejected-change-left-trace/{}", if is_issue { "issue" } else { "patch" }), format!("{}: the state evaluated from all changes differs from the state evaluated from the retained changes only: {} vs {}", self.oname(&id), &state[..state.len().min(300)], &vstate[..vstate.len().min(300)]));
                            } else if dropped {
                                self.res.hit("probe.c06.dropped_changes_left_no_trace");
                            }
                        }
                        None => {
                            self.res.violate(&own, "C06", "C06/retained-set-does-not-evaluate", format!("{}: the retained changes alone do not evaluate", self.oname(&id)));
                        }
                    }
                }
                None => {
                    self.res.hit("harness.view_failed");
                }
            }
        }
    }

    /// A repository with the same objects (alternates) and the same refs, except that the refs of
    /// object `id` point exactly at `tips` (spread over as many namespaces as needed).
    fn view(&mut self, src: &Repository, tn: &TypeName, id: &ObjectId, tips: &[Oid]) -> Option<Repository> {
        self.view_without(src, tn, id, tips, None)
    }

    /// As `view`, and without the reference `without` (a replica that has not replicated it).
    fn view_without(&mut self, src: &Repository, tn: &TypeName, id: &ObjectId, tips: &[Oid], without: Option<&str>) -> Option<Repository> {
        let n = self.res.counters.get("probe.c06.views").copied().unwrap_or(0);
        self.res.hit("probe.c06.views");
        let path = self.dir.join(format!("view-{n}"));
        let raw = git2::Repository::init_bare(&path).ok()?;
        let alt = path.join("objects").join("info");
        std::fs::create_dir_all(&alt).ok()?;
        std::fs::write(alt.join("alternates"), format!("{}\n", src.backend.path().join("objects").display())).ok()?;
        let raw = {
            drop(raw);
            git2::Repository::open_bare(&path).ok()?
        };
        let skip = format!("/refs/cobs/{tn}/{id}");
        for r in src.backend.references().ok()?.flatten() {
            let Some(name) = r.name() else { continue };
            if name.ends_with(&skip) || name == "HEAD" || Some(name) == without {
                continue;
            }
            if let Some(sym) = r.symbolic_target() {
                let _ = raw.reference_symbolic(name, sym, true, "view");
            } else if let Some(t) = r.target() {
                let _ = raw.reference(name, t, true, "view");
            }
        }
        // spread the retained tips over namespaces (real ones first, then spare keys)
        let mut namespaces: Vec<String> = self.reps.iter().map(|r| r.nid.to_string()).collect();
        for k in 0..tips.len() {
            namespaces.push(crate::gen::key(self.ch.seed, 500 + k as u64).public_key().to_string());
        }
        for (i, t) in tips.iter().enumerate() {
            raw.reference(&format!("refs/namespaces/{}/refs/cobs/{tn}/{id}", namespaces[i]), **t, true, "view").ok()?;
        }
        drop(raw);
        Repository::open(&path, self.rid).ok()
    }
}

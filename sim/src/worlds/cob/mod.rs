//! World C — COB-SIM: 3..5 replicas, each with its own real `radicle::Storage` and its own
//! COB cache database, author issues and patches through the public API (and byzantine
//! changes below the validation layer), and exchange refs in any order, partially,
//! repeatedly. Oracles: C05 (state is a function of the change set), C06 (rejected changes
//! leave no trace), C08 (merged only by a threshold), C09 (cache == direct evaluation).

mod authz;
mod identity;
mod ops;
mod oracle;

use std::collections::{BTreeMap, BTreeSet};
use std::path::PathBuf;
use std::str::FromStr;

use radicle::cob::ObjectId;
use radicle::crypto::test::signer::MockSigner;
use radicle::git::Oid;
use radicle::identity::doc::{Doc, Visibility};
use radicle::identity::project::Project;
use radicle::identity::{Did, RepoId};
use radicle::node::device::Device;
use radicle::node::{Alias, NodeId};
use radicle::storage::git::Repository;
use radicle::storage::{ReadStorage, RefUpdate, SignRepository, WriteRepository, WriteStorage};
use radicle::Storage;

use crate::gen;
use crate::kit::{Chooser, RunCfg, RunResult};

pub struct Replica {
    pub name: String,
    pub signer: Device<MockSigner>,
    pub nid: NodeId,
    pub storage: Storage,
    pub delegate: bool,
    pub cache_path: PathBuf,
    /// this replica's clock runs backwards
    pub backwards: bool,
}

pub struct World<'a> {
    pub ch: &'a mut Chooser,
    pub own: String,
    pub res: RunResult,
    pub dir: PathBuf,
    pub reps: Vec<Replica>,
    pub rid: RepoId,
    pub threshold: usize,
    pub commits: Vec<Oid>,
    pub issues: Vec<ObjectId>,
    pub patches: Vec<ObjectId>,
    pub time: i64,
    pub faults: bool,
    /// pairs of replicas that cannot sync at the moment
    pub partitioned: BTreeSet<(usize, usize)>,
    pub labels: BTreeMap<String, String>,
    /// (replica, is_issue): the replica created an object again that already existed with the same
    /// id (same author, content and second), see known finding C09/after-identical-create
    pub recreated: BTreeSet<(usize, bool)>,
    pub authz: authz::Authz,
}

impl<'a> World<'a> {
    pub fn repo(&self, r: usize) -> Repository {
        self.reps[r].storage.repository(self.rid).expect("replica repository")
    }

    /// Set the commit time of the next change: from a tiny set, so that ties are common;
    /// some replicas' clocks run backwards.
    pub fn stamp(&mut self, r: usize) {
        let t = if self.reps[r].backwards {
            self.time -= 1;
            1_700_000_100 - (1_700_000_100 - self.time).rem_euclid(4)
        } else {
            1_700_000_000 + self.ch.pick(4) as i64
        };
        std::env::set_var("GIT_COMMITTER_DATE", t.to_string());
        std::env::set_var("RAD_COMMIT_TIME", t.to_string());
        std::env::set_var("RAD_LOCAL_TIME", t.to_string());
    }

    pub fn oname(&self, id: &ObjectId) -> String {
        if let Some(i) = self.issues.iter().position(|x| x == id) {
            return format!("issue{i}");
        }
        if let Some(i) = self.patches.iter().position(|x| x == id) {
            return format!("patch{i}");
        }
        "obj?".into()
    }

    pub fn short(&self, oid: &Oid) -> String {
        let s = oid.to_string();
        self.labels.get(&s).cloned().unwrap_or_else(|| format!("{:.6}", s))
    }
}

pub fn run(ch: &mut Chooser, cfg: &RunCfg) -> RunResult {
    let mut w = setup(ch, cfg);
    w.main_loop();
    w.res.steps = w.res.trace.count;
    w.res.nontrivial = w.issues.len() + w.patches.len() >= 1 && w.res.counters.get("probe.cob.sync").copied().unwrap_or(0) >= 1;
    w.res
}

/// The identity variant of the world (C04): the same replicas, but the object everybody works on
/// is the repository's identity.
pub fn run_identity(ch: &mut Chooser, cfg: &RunCfg) -> RunResult {
    let mut w = setup(ch, cfg);
    w.identity_loop();
    w.res.steps = w.res.trace.count;
    w.res.nontrivial = w.res.counters.get("probe.id.revision_proposed").copied().unwrap_or(0) >= 1 && w.res.counters.get("probe.cob.sync").copied().unwrap_or(0) >= 1;
    w.res
}

fn setup<'a>(ch: &'a mut Chooser, cfg: &RunCfg) -> World<'a> {
    let seed = ch.seed;
    let own = if cfg.property.starts_with("ALL") { "*".to_string() } else { cfg.property.clone() };
    let n = 3 + ch.pick_usize(3);
    let (k, threshold) = if cfg.property == "C08" {
        // mostly several delegates and a threshold above one
        let k = [2, 3, 2, 1][ch.pick_usize(4)].min(n);
        let t = if k >= 2 && ch.pick(4) != 3 { 2 + ch.pick_usize(k - 1) } else { 1 };
        (k, t)
    } else if cfg.property == "C07" {
        // few delegates, so that most actors need a specific permission
        let k = 1 + ch.pick_usize(2);
        (k, 1 + ch.pick_usize(k))
    } else if cfg.property == "C04" || cfg.property == "ALLI" {
        let k = 1 + ch.pick_usize(4.min(n));
        (k, 1 + ch.pick_usize(k))
    } else {
        let k = 1 + ch.pick_usize(3.min(n));
        (k, 1 + ch.pick_usize(k))
    };
    let faults = ch.pick(4) != 0;
    let dir = cfg.scratch.clone();
    std::env::set_var("GIT_COMMITTER_DATE", "1700000000");
    std::env::set_var("RAD_COMMIT_TIME", "1700000000");
    std::env::set_var("RAD_LOCAL_TIME", "1700000000");
    let mut reps: Vec<Replica> = Vec::new();
    for i in 0..n {
        let signer = gen::key(seed, i as u64);
        let nid = *signer.public_key();
        let storage = Storage::open(dir.join(format!("r{i}")), radicle::git::UserInfo { alias: Alias::from_str(&format!("r{i}")).unwrap(), key: nid }).expect("storage");
        reps.push(Replica { name: format!("{}{i}", if i < k { "d" } else { "u" }), signer, nid, storage, delegate: i < k, cache_path: dir.join(format!("cache-{i}.db")), backwards: faults && ch.pick(5) == 4 });
    }
    let project = Project::new("sim".try_into().unwrap(), "cob world".to_string(), radicle::git::RefString::try_from("master").unwrap()).expect("project");
    let dids: Vec<Did> = reps.iter().filter(|a| a.delegate).map(|a| Did::from(a.nid)).collect();
    let doc = Doc::initial(project, dids[0], Visibility::Public)
        .with_edits(|raw| {
            raw.delegates = dids.clone();
            raw.threshold = threshold;
        })
        .expect("doc");
    let (repo, identity) = Repository::init(&doc, &reps[0].storage, &reps[0].signer).expect("Repository::init");
    repo.set_remote_identity_root_to(&reps[0].nid, identity).expect("identity root");
    repo.set_identity_head_to(identity).expect("identity head");
    let rid = repo.id;
    let mut res = RunResult::new();
    res.trace.log("setup", format!("replicas={n} delegates={k} threshold={threshold} faults={faults}"));
    res.summary = format!("{n} replica(s), {k} delegate(s), threshold {threshold}, faults={faults}");
    let mut w = World { ch, own, res, dir, reps, rid, threshold, commits: Vec::new(), issues: Vec::new(), patches: Vec::new(), time: 1_700_000_100, faults, partitioned: BTreeSet::new(), labels: BTreeMap::new(), recreated: BTreeSet::new(), authz: authz::Authz::default() };

    // code: c0 - c1 - c2 on master, c3 a side branch off c0
    let raw = &repo.backend;
    let mk = |raw: &git2::Repository, n: usize, parents: &[Oid]| -> Oid {
        let blob = raw.blob(format!("content {n}\n").as_bytes()).unwrap();
        let mut tb = raw.treebuilder(None).unwrap();
        tb.insert("f", blob, 0o100_644).unwrap();
        let tree = raw.find_tree(tb.write().unwrap()).unwrap();
        let sig = git2::Signature::new("sim", "sim@sim", &git2::Time::new(1_600_000_000 + n as i64, 0)).unwrap();
        let ps: Vec<git2::Commit> = parents.iter().map(|p| raw.find_commit(**p).unwrap()).collect();
        let prefs: Vec<&git2::Commit> = ps.iter().collect();
        raw.commit(None, &sig, &sig, &format!("c{n}"), &tree, &prefs).unwrap().into()
    };
    let c0 = mk(raw, 0, &[]);
    let c1 = mk(raw, 1, &[c0]);
    let c2 = mk(raw, 2, &[c1]);
    let c3 = mk(raw, 3, &[c0]);
    w.commits = vec![c0, c1, c2, c3];
    for (i, c) in w.commits.iter().enumerate() {
        w.labels.insert(c.to_string(), format!("c{i}"));
    }
    // every delegate's master: mostly c2, sometimes c1 (then a merge of c2 is not on its branch)
    raw.reference(&format!("refs/namespaces/{}/refs/heads/master", w.reps[0].nid), *c2, true, "sim").unwrap();
    raw.reference(&format!("refs/namespaces/{}/refs/heads/side", w.reps[0].nid), *c3, true, "sim").unwrap();
    repo.sign_refs(&w.reps[0].signer).expect("sign_refs d0");
    let _ = repo.set_head();
    drop(repo);
    // the others clone everything from d0 and create their own namespace
    for i in 1..n {
        let repo = w.reps[i].storage.create(rid).expect("create");
        w.pull_refs(i, 0, None);
        let target = if w.reps[i].delegate && w.ch.pick(3) == 2 { c1 } else { c2 };
        repo.backend.reference(&format!("refs/namespaces/{}/refs/heads/master", w.reps[i].nid), *target, true, "sim").unwrap();
        let _ = repo.set_identity_head();
        repo.sign_refs(&w.reps[i].signer).expect("sign_refs");
        let _ = repo.set_head();
    }
    // delegates learn about each other's branches
    for i in 0..n {
        for j in 0..n {
            if i != j && w.reps[j].delegate {
                // in the merge check, replicas that are not delegates sometimes start without the branch of a
                // delegate (they get it with that delegate's namespace, or never)
                if cfg.property == "C08" && !w.reps[i].delegate && w.ch.pick(2) == 0 {
                    w.res.hit("probe.c08.replica_starts_without_a_delegate_branch");
                    continue;
                }
                w.pull_refs(i, j, Some(j));
            }
        }
    }
    w
}

impl<'a> World<'a> {
    /// Replica `x` fetches refs from replica `z` with libgit2's local transport: every namespace
    /// (`ns = None`) or only the namespace of replica `ns`. Returns the ref updates, as the worker
    /// would hand them to `cache_cobs`.
    pub fn pull_refs(&mut self, x: usize, z: usize, ns: Option<usize>) -> Vec<RefUpdate> {
        let repo = self.repo(x);
        let src = self.repo(z);
        let url = format!("file://{}", self.reps[z].storage.path().join(self.rid.canonical()).display());
        // which namespaces does z offer?
        let mut offered: BTreeSet<String> = BTreeSet::new();
        if let Ok(refs) = src.backend.references_glob("refs/namespaces/*/refs/rad/sigrefs") {
            for r in refs.flatten() {
                if let Some(n) = r.name().and_then(|n| n.strip_prefix("refs/namespaces/")).and_then(|n| n.split('/').next()) {
                    offered.insert(n.to_string());
                }
            }
        }
        if let Some(k) = ns {
            let only = self.reps[k].nid.to_string();
            offered.retain(|n| *n == only);
        }
        let mut updates = Vec::new();
        for n in offered {
            // As the real fetch does: a namespace is taken as a whole (refs forced to what its signed
            // refs say) but only if the offered signed refs are equal to or ahead of ours.
            let name = format!("refs/namespaces/{n}/refs/rad/sigrefs");
            let theirs = src.backend.refname_to_id(&name).ok();
            let ours = repo.backend.refname_to_id(&name).ok();
            match (ours, theirs) {
                (Some(o), Some(t)) if o != t => {
                    if !src.backend.graph_descendant_of(t, o).unwrap_or(false) {
                        continue; // behind or diverged (or unknown to the source): leave it alone
                    }
                }
                (Some(_), Some(_)) => continue, // equal: nothing to do
                (_, None) => continue,
                (None, Some(_)) => {}
            }
            let refspec = format!("+refs/namespaces/{n}/refs/*:refs/namespaces/{n}/refs/*");
            let mut callbacks = git2::RemoteCallbacks::new();
            callbacks.update_tips(|name, old, new| {
                if let Ok(name) = radicle::git::RefString::try_from(name) {
                    updates.push(RefUpdate::from(name, old, new));
                }
                true
            });
            let mut opts = git2::FetchOptions::default();
            opts.prune(git2::FetchPrune::On);
            opts.remote_callbacks(callbacks);
            let mut remote = repo.backend.remote_anonymous(&url).expect("remote");
            if let Err(e) = remote.fetch(&[refspec], Some(&mut opts), None) {
                self.res.trace.log("sync-error", format!("sync error: {}", crate::kit::json::normalise(&e.to_string())));
            }
        }
        let _ = repo.set_identity_head();
        let _ = repo.set_head();
        updates
    }
}

//! C07 in world C: every value the harness writes carries its writer (titles `T<r>:<n>`, comment
//! bodies `B<r>:<n>`, review summaries `S<r>:<n>`, labels `l<r>-<n>`, a ghost assignee only
//! non-delegates use), byzantine authors write single, otherwise valid, actions they are not
//! authorised for, and the oracle reads the evaluated objects: every value in the state must have
//! been written by somebody the property allows, every redaction must have an allowed redactor,
//! and no retained change contains an action that can only be denied.

use std::collections::{BTreeMap, BTreeSet};

use nonempty::NonEmpty;
use radicle::cob::issue;
use radicle::cob::patch;
use radicle::cob::store::encoding;
use radicle::cob::{Label, ObjectId};
use radicle::crypto::PublicKey;
use radicle::git::Oid;
use radicle::identity::Did;
use radicle::storage::{ReadRepository, SignRepository};
use radicle_cob::change::Storage as _;
use radicle_cob::object::Storage as _;

use super::ops::open_cache;
use super::World;
use crate::kit::json::{catch, normalise};

#[derive(Default)]
pub struct Authz {
    pub n: u32,
    /// comment id -> (object, author, revision the comment lives in (patches))
    pub comments: BTreeMap<Oid, (ObjectId, PublicKey, Option<Oid>)>,
    /// review id -> (object, author, revision)
    pub reviews: BTreeMap<Oid, (ObjectId, PublicKey, Oid)>,
    /// redactions written (honest and byzantine): target id -> writers
    pub redacts: BTreeMap<Oid, BTreeSet<usize>>,
    /// label sets written by delegates, per object (a label action replaces the whole set, so the
    /// labels of an object are always exactly one of these, or empty)
    pub label_sets: BTreeMap<ObjectId, BTreeSet<BTreeSet<String>>>,
    /// assignee sets written by delegates, per object
    pub assign_sets: BTreeMap<ObjectId, BTreeSet<BTreeSet<String>>>,
}

pub fn writer_of(s: &str, prefix: char) -> Option<usize> {
    let rest = s.strip_prefix(prefix)?;
    let (w, _) = rest.split_once(|c| c == ':' || c == '-')?;
    w.parse().ok()
}

impl<'a> World<'a> {
    pub fn tag(&mut self, r: usize, prefix: char) -> String {
        self.authz.n += 1;
        format!("{prefix}{r}:{}", self.authz.n)
    }

    pub fn tag_label(&mut self, r: usize) -> Label {
        self.authz.n += 1;
        Label::new(format!("l{r}-{}", self.authz.n)).expect("label")
    }

    pub fn note_labels<'l>(&mut self, r: usize, id: &ObjectId, labels: impl IntoIterator<Item = &'l Label>) {
        if self.reps[r].delegate {
            self.authz.label_sets.entry(*id).or_default().insert(labels.into_iter().map(|l| l.name().to_string()).collect());
        }
    }

    pub fn note_assignees<'l>(&mut self, r: usize, id: &ObjectId, dids: impl IntoIterator<Item = &'l Did>) {
        if self.reps[r].delegate {
            self.authz.assign_sets.entry(*id).or_default().insert(dids.into_iter().map(|d| d.to_string()).collect());
        }
    }

    pub fn ghost(&self, r: usize) -> Did {
        Did::from(*crate::gen::key(self.ch.seed, 900 + r as u64).public_key())
    }

    fn is_delegate_key(&self, k: &PublicKey) -> bool {
        self.reps.iter().any(|x| x.delegate && x.nid == *k)
    }

    /// A single action the author may or may not be authorised for, written below the API.
    pub fn authz_byzantine(&mut self, r: usize) {
        let pool: Vec<(bool, ObjectId)> = self.issues.iter().map(|i| (true, *i)).chain(self.patches.iter().map(|p| (false, *p))).collect();
        if pool.is_empty() {
            return;
        }
        let (is_issue, id) = pool[self.ch.pick_usize(pool.len())];
        // mostly somebody who is not a delegate; often somebody with a role on the object (its author, the
        // author of one of its revisions) acting on what belongs to somebody else
        let nd: Vec<usize> = (0..self.reps.len()).filter(|i| !self.reps[*i].delegate).collect();
        let mut roles: Vec<usize> = Vec::new();
        {
            let probe = self.repo(r);
            let mut keys: Vec<PublicKey> = Vec::new();
            if is_issue {
                if let Ok(Some(o)) = radicle::cob::get::<issue::Issue, _>(&probe, &issue::TYPENAME, &id) {
                    keys.push(*o.object.author().id().as_key());
                }
            } else if let Ok(Some(o)) = radicle::cob::get::<patch::Patch, _>(&probe, &patch::TYPENAME, &id) {
                keys.push(*o.object.author().id().as_key());
                for (_, rev) in o.object.revisions() {
                    keys.push(*rev.author().id().as_key());
                }
            }
            for k in keys {
                if let Some(i) = self.reps.iter().position(|x| x.nid == k && !x.delegate) {
                    if !roles.contains(&i) {
                        roles.push(i);
                    }
                }
            }
        }
        let r = if !roles.is_empty() && self.ch.pick(3) == 0 {
            roles[self.ch.pick_usize(roles.len())]
        } else if !nd.is_empty() && self.ch.pick(5) != 4 {
            nd[self.ch.pick_usize(nd.len())]
        } else {
            r
        };
        self.stamp(r);
        let repo = self.repo(r);
        let signer = self.reps[r].signer.clone();
        let nid = self.reps[r].nid;
        let delegate = self.reps[r].delegate;
        let Ok(identity) = repo.identity_head() else { return };
        let mut kind: &str;
        let type_name;
        let mut redacting: Option<Oid> = None;
        let mut owner: Option<PublicKey> = None; // whose permission (besides a delegate's) would do
        let mut delegate_only = false;
        let (tips, contents): (Vec<Oid>, Vec<Vec<u8>>) = if is_issue {
            type_name = issue::TYPENAME.clone();
            let Ok(Some(obj)) = radicle::cob::get::<issue::Issue, _>(&repo, &type_name, &id) else { return };
            let iss = &obj.object;
            let comments: Vec<Oid> = iss.comments().map(|(c, _)| *c).collect();
            let root_c = *iss.root().0;
            let others: Vec<Oid> = comments.iter().copied().filter(|c| *c != root_c).collect();
            let foreign: Vec<Oid> = iss.comments().filter(|(c, x)| **c != root_c && x.author() != nid).map(|(c, _)| *c).collect();
            let a_comment = if !foreign.is_empty() && self.ch.pick(4) != 3 {
                foreign[self.ch.pick_usize(foreign.len())]
            } else if others.is_empty() {
                root_c
            } else {
                others[self.ch.pick_usize(others.len())]
            };
            let redacted: Vec<Oid> = self.authz.comments.iter().filter(|(c, v)| v.0 == id && !comments.contains(c) && obj.history.graph().contains(c)).map(|(c, _)| *c).collect();
            let iss_author: PublicKey = *iss.author().id().as_key();
            let c_author: PublicKey = iss.comments().find(|(c, _)| **c == a_comment).map(|(_, c)| c.author()).unwrap_or(iss_author);
            let act: issue::Action = match if !foreign.is_empty() && self.ch.pick(5) < 3 { 4 + self.ch.pick(2) } else if !others.is_empty() && self.ch.pick(4) == 0 { 4 + self.ch.pick(2) } else { self.ch.pick(8) } {
                0 => {
                    kind = "edit-title";
                    owner = Some(iss_author);
                    issue::Action::Edit { title: self.tag(r, 'T').into() }
                }
                1 => {
                    kind = "lifecycle";
                    owner = Some(iss_author);
                    issue::Action::Lifecycle { state: if self.ch.pick(2) == 0 { issue::State::Closed { reason: issue::CloseReason::Other } } else { issue::State::Open } }
                }
                2 => {
                    kind = "label";
                    delegate_only = true;
                    let mut labels: BTreeSet<Label> = iss.labels().cloned().collect();
                    if self.ch.pick(2) == 0 && !labels.is_empty() {
                        // or: drop one of the current labels
                        kind = "label-removal";
                        let first = labels.iter().next().cloned().unwrap();
                        labels.remove(&first);
                    } else {
                        labels.insert(self.tag_label(r));
                    }
                    self.note_labels(r, &id, labels.iter());
                    issue::Action::Label { labels }
                }
                3 => {
                    kind = "assign";
                    delegate_only = true;
                    let mut assignees: BTreeSet<Did> = iss.assignees().cloned().collect();
                    if self.ch.pick(2) == 0 && !assignees.is_empty() {
                        kind = "assignee-removal";
                        let first = assignees.iter().next().cloned().unwrap();
                        assignees.remove(&first);
                    } else {
                        assignees.insert(if delegate { Did::from(self.reps[self.ch.pick_usize(self.reps.len())].nid) } else { self.ghost(r) });
                    }
                    self.note_assignees(r, &id, assignees.iter());
                    issue::Action::Assign { assignees }
                }
                4 => {
                    kind = "comment-edit";
                    owner = Some(c_author);
                    issue::Action::CommentEdit { id: a_comment, body: self.tag(r, 'B'), embeds: vec![] }
                }
                5 => {
                    kind = "comment-redact";
                    if a_comment == *iss.root().0 {
                        return;
                    }
                    redacting = Some(a_comment);
                    owner = Some(c_author);
                    issue::Action::CommentRedact { id: a_comment }
                }
                6 => {
                    kind = "label-no-op";
                    issue::Action::Label { labels: iss.labels().cloned().collect() }
                }
                _ => {
                    kind = "edit-of-redacted-comment";
                    if redacted.is_empty() {
                        return;
                    }
                    issue::Action::CommentEdit { id: redacted[self.ch.pick_usize(redacted.len())], body: self.tag(r, 'B'), embeds: vec![] }
                }
            };
            (obj.history.tips().into_iter().collect(), vec![encoding::encode(&act).unwrap()])
        } else {
            type_name = patch::TYPENAME.clone();
            let Ok(Some(obj)) = radicle::cob::get::<patch::Patch, _>(&repo, &type_name, &id) else { return };
            let p = &obj.object;
            let revs: Vec<(patch::RevisionId, &patch::Revision)> = p.revisions().collect();
            let busy: Vec<(patch::RevisionId, &patch::Revision)> = revs.iter().copied().filter(|(_, rv)| rv.discussion().comments().count() + rv.reviews().count() > 0).collect();
            // first choice: a revision of the writer's own that somebody else reviewed or commented on
            let mine: Vec<(patch::RevisionId, &patch::Revision)> = revs.iter().copied().filter(|(_, rv)| *rv.author().id().as_key() == nid && (rv.reviews().any(|(k, _)| *k != nid) || rv.discussion().comments().any(|(_, c)| c.author() != nid))).collect();
            let on_own_revision = !mine.is_empty() && self.ch.pick(4) != 3;
            let (rev, revision) = if on_own_revision {
                mine[self.ch.pick_usize(mine.len())]
            } else if !busy.is_empty() && self.ch.pick(3) != 2 {
                busy[self.ch.pick_usize(busy.len())]
            } else {
                revs[self.ch.pick_usize(revs.len())]
            };
            let mut rcomments: Vec<Oid> = revision.discussion().comments().map(|(c, _)| *c).collect();
            let mut reviews: Vec<patch::ReviewId> = revision.reviews().map(|(_, rv)| rv.id()).collect();
            if self.ch.pick(4) != 3 {
                // prefer those of other people
                let fc: Vec<Oid> = revision.discussion().comments().filter(|(_, x)| x.author() != nid).map(|(c, _)| *c).collect();
                if !fc.is_empty() {
                    rcomments = fc;
                }
                let fr: Vec<patch::ReviewId> = revision.reviews().filter(|(k, _)| **k != nid).map(|(_, rv)| rv.id()).collect();
                if !fr.is_empty() {
                    reviews = fr;
                }
            }
            let p_author: PublicKey = *p.author().id().as_key();
            let act: patch::Action = match if on_own_revision && !reviews.is_empty() && self.ch.pick(3) != 2 { 7 + self.ch.pick(2) } else if !rcomments.is_empty() && self.ch.pick(2) == 0 { 5 + self.ch.pick(2) } else if !reviews.is_empty() && self.ch.pick(2) == 0 { 7 + self.ch.pick(2) } else { self.ch.pick(11) } {
                0 => {
                    kind = "edit-title";
                    owner = Some(p_author);
                    patch::Action::Edit { title: self.tag(r, 'T').into(), target: patch::MergeTarget::Delegates }
                }
                1 => {
                    kind = "lifecycle";
                    owner = Some(p_author);
                    patch::Action::Lifecycle { state: if self.ch.pick(2) == 0 { patch::Lifecycle::Archived } else { patch::Lifecycle::Draft } }
                }
                2 => {
                    kind = "label";
                    delegate_only = true;
                    let mut labels: BTreeSet<Label> = p.labels().cloned().collect();
                    if self.ch.pick(2) == 0 && !labels.is_empty() {
                        kind = "label-removal";
                        let first = labels.iter().next().cloned().unwrap();
                        labels.remove(&first);
                    } else {
                        labels.insert(self.tag_label(r));
                    }
                    self.note_labels(r, &id, labels.iter());
                    patch::Action::Label { labels }
                }
                3 => {
                    kind = "assign";
                    delegate_only = true;
                    let mut assignees: BTreeSet<Did> = p.assignees().collect();
                    if self.ch.pick(2) == 0 && !assignees.is_empty() {
                        kind = "assignee-removal";
                        let first = assignees.iter().next().cloned().unwrap();
                        assignees.remove(&first);
                    } else {
                        assignees.insert(if delegate { Did::from(self.reps[self.ch.pick_usize(self.reps.len())].nid) } else { self.ghost(r) });
                    }
                    self.note_assignees(r, &id, assignees.iter());
                    patch::Action::Assign { assignees }
                }
                4 => {
                    kind = "merge";
                    delegate_only = true;
                    patch::Action::Merge { revision: rev, commit: self.commits[2] }
                }
                5 => {
                    kind = "revision-comment-edit";
                    if rcomments.is_empty() {
                        return;
                    }
                    let c = rcomments[self.ch.pick_usize(rcomments.len())];
                    owner = revision.discussion().comment(&c).map(|x| x.author());
                    patch::Action::RevisionCommentEdit { revision: rev, comment: c, body: self.tag(r, 'B'), embeds: vec![] }
                }
                6 => {
                    kind = "revision-comment-redact";
                    if rcomments.is_empty() {
                        return;
                    }
                    let c = rcomments[self.ch.pick_usize(rcomments.len())];
                    redacting = Some(c);
                    owner = revision.discussion().comment(&c).map(|x| x.author());
                    patch::Action::RevisionCommentRedact { revision: rev, comment: c }
                }
                7 => {
                    kind = "review-edit";
                    if reviews.is_empty() {
                        return;
                    }
                    let rv = reviews[self.ch.pick_usize(reviews.len())];
                    owner = revision.reviews().find(|(_, x)| x.id() == rv).map(|(k, _)| *k);
                    patch::Action::ReviewEdit { review: rv, summary: Some(self.tag(r, 'S')), verdict: None, labels: vec![] }
                }
                8 => {
                    kind = "review-redact";
                    if reviews.is_empty() {
                        return;
                    }
                    let rv = reviews[self.ch.pick_usize(reviews.len())];
                    redacting = Some(*rv);
                    owner = revision.reviews().find(|(_, x)| x.id() == rv).map(|(k, _)| *k);
                    patch::Action::ReviewRedact { review: rv }
                }
                9 => {
                    kind = "label-no-op";
                    patch::Action::Label { labels: p.labels().cloned().collect() }
                }
                _ => {
                    kind = "assign-no-op";
                    patch::Action::Assign { assignees: p.assignees().collect() }
                }
            };
            (obj.history.tips().into_iter().collect(), vec![encoding::encode(&act).unwrap()])
        };
        let Some(contents) = NonEmpty::from_vec(contents) else { return };
        let out = catch(|| -> Result<(), String> {
            let entry = repo
                .store(Some(identity), vec![], &signer, radicle_cob::change::Template { type_name: type_name.clone(), tips, message: "unauthorised action".to_string(), embeds: vec![], contents })
                .map_err(|e| e.to_string())?;
            repo.update(&nid, &type_name, &id, &entry.id).map_err(|e| e.to_string())?;
            repo.sign_refs(&signer).map_err(|e| e.to_string())?;
            Ok(())
        });
        match out {
            Ok(Ok(())) => {
                self.res.hit("fault.cob.authz_raw_action");
                let unauthorised = !delegate && (delegate_only || owner.map(|o| o != nid).unwrap_or(false));
                if unauthorised {
                    self.res.hit("fault.cob.authz_unauthorised_action");
                    self.res.hit(&format!("fault.cob.unauthorised.{}.{kind}", if is_issue { "issue" } else { "patch" }));
                }
                self.res.hit(&format!("fault.cob.authz.{}.{kind}", if is_issue { "issue" } else { "patch" }));
                if let Some(t) = redacting {
                    self.authz.redacts.entry(t).or_default().insert(r);
                }
                self.res.trace.log(&format!("authz-{kind}"), format!("{} ({}) writes a raw single action on {}: {kind}", self.reps[r].name, if delegate { "delegate" } else { "not a delegate" }, self.oname(&id)));
            }
            Ok(Err(e)) => self.res.trace.log("byzantine-error", format!("raw action could not be written: {}", normalise(&e))),
            Err(p) => self.res.trace.log("byzantine-panic", format!("raw action panicked: {}", p.message)),
        }
        let mut cache = open_cache(&self.reps[r].cache_path);
        let name = radicle::git::RefString::try_from(format!("refs/namespaces/{nid}/refs/cobs/{type_name}/{id}")).expect("refname");
        let up = radicle::storage::RefUpdate::Updated { name, old: self.commits[0], new: self.commits[0] };
        let _ = radicle_node::worker::fetch::verif::cache_cobs(&self.rid, &[up], &repo, &mut cache);
        drop(cache);
        self.check_replica(r, "unauthorised-action");
    }

    fn allowed(&self, writer: usize, owner: &PublicKey) -> bool {
        self.reps[writer].delegate || self.reps[writer].nid == *owner
    }

    /// The C07 oracle on replica `r`.
    pub fn check_authz(&mut self, r: usize) {
        let own = self.own.clone();
        let repo = self.repo(r);
        let name = self.reps[r].name.clone();
        let ghosts: BTreeSet<Did> = (0..self.reps.len()).map(|x| self.ghost(x)).collect();
        for id in self.issues.clone() {
            let Ok(Some(obj)) = radicle::cob::get::<issue::Issue, _>(&repo, &issue::TYPENAME, &id) else { continue };
            let iss = &obj.object;
            let on = self.oname(&id);
            let author: PublicKey = *iss.author().id().as_key();
            self.res.hit("probe.c07.object_checked");
            // title
            if let Some(w) = writer_of(iss.title(), 'T') {
                if !self.allowed(w, &author) {
                    self.res.violate(&own, "C07", "C07/issue/title-written-by-unauthorised-actor", format!("{name}: the title of {on} is '{}', written by {} who is neither its author nor a delegate", iss.title(), self.reps[w].name));
                }
            }
            // labels
            for l in iss.labels() {
                if let Some(w) = writer_of(l.name(), 'l') {
                    if !self.reps[w].delegate {
                        self.res.violate(&own, "C07", "C07/issue/label-written-by-non-delegate", format!("{name}: {on} carries label {} written by {} who is not a delegate", l.name(), self.reps[w].name));
                    }
                }
            }
            // the label set and the assignee set as a whole are ones a delegate wrote (or empty)
            let lset: BTreeSet<String> = iss.labels().map(|l| l.name().to_string()).collect();
            if !lset.is_empty() && !self.authz.label_sets.get(&id).map(|s| s.contains(&lset)).unwrap_or(false) {
                self.res.violate(&own, "C07", "C07/issue/label-set-not-written-by-a-delegate", format!("{name}: {on} carries the labels {lset:?}, which no delegate wrote as a set (delegates wrote {:?})", self.authz.label_sets.get(&id)));
            }
            let aset: BTreeSet<String> = iss.assignees().map(|d| d.to_string()).collect();
            if !aset.is_empty() && !self.authz.assign_sets.get(&id).map(|s| s.contains(&aset)).unwrap_or(false) {
                self.res.violate(&own, "C07", "C07/issue/assignee-set-not-written-by-a-delegate", format!("{name}: {on} is assigned to {} key(s), a set no delegate wrote", aset.len()));
            }
            // assignees
            for a in iss.assignees() {
                if ghosts.contains(a) {
                    self.res.violate(&own, "C07", "C07/issue/assignee-written-by-non-delegate", format!("{name}: {on} is assigned to a key only non-delegates use"));
                }
            }
            // comments: bodies and redactions
            let mut present: BTreeSet<Oid> = BTreeSet::new();
            for (cid, c) in iss.comments() {
                present.insert(*cid);
                self.authz.comments.entry(*cid).or_insert((id, c.author(), None));
                if let Some(w) = writer_of(c.body(), 'B') {
                    if !self.allowed(w, &c.author()) {
                        self.res.violate(&own, "C07", "C07/issue/comment-edited-by-unauthorised-actor", format!("{name}: a comment of {} on {on} reads '{}', written by {}", self.who_key(&c.author()), c.body(), self.reps[w].name));
                    }
                }
            }
            let known: Vec<(Oid, PublicKey)> = self.authz.comments.iter().filter(|(_, v)| v.0 == id).map(|(c, v)| (*c, v.1)).collect();
            for (cid, cauthor) in known {
                if !present.contains(&cid) && obj.history.graph().contains(&cid) {
                    self.res.hit("probe.c07.redacted_comment_checked");
                    let ok = self.authz.redacts.get(&cid).map(|ws| ws.iter().any(|w| self.allowed(*w, &cauthor))).unwrap_or(false);
                    if !ok {
                        self.res.violate(&own, "C07", "C07/issue/comment-redacted-by-unauthorised-actor", format!("{name}: a comment of {} on {on} is redacted but only {:?} wrote redactions of it", self.who_key(&cauthor), self.authz.redacts.get(&cid).map(|ws| ws.iter().map(|w| self.reps[*w].name.clone()).collect::<Vec<_>>()).unwrap_or_default()));
                    }
                }
            }
            // retained changes must not contain an action that can only be denied
            for k in obj.history.graph().sorted() {
                let Some(node) = obj.history.graph().get(&k) else { continue };
                let e = &node.value;
                let x = *e.author();
                if self.is_delegate_key(&x) {
                    continue;
                }
                let Some(xi) = self.reps.iter().position(|q| q.nid == x) else { continue };
                for c in e.contents().iter() {
                    let Ok(a) = serde_json::from_slice::<issue::Action>(c) else { continue };
                    let bad = match &a {
                        issue::Action::Edit { .. } | issue::Action::Lifecycle { .. } => x != author && k != *id,
                        issue::Action::Label { labels } => labels.iter().any(|l| writer_of(l.name(), 'l') == Some(xi)),
                        issue::Action::Assign { assignees } => assignees.iter().any(|d| ghosts.contains(d)),
                        _ => false,
                    };
                    if bad {
                        self.res.violate(&own, "C07", "C07/issue/unauthorised-action-retained", format!("{name}: the history of {on} retains a change of {} (neither author nor delegate as required) with action {}", self.reps[xi].name, String::from_utf8_lossy(c)));
                    }
                }
            }
        }
        for id in self.patches.clone() {
            let Ok(Some(obj)) = radicle::cob::get::<patch::Patch, _>(&repo, &patch::TYPENAME, &id) else { continue };
            let p = &obj.object;
            let on = self.oname(&id);
            let author: PublicKey = *p.author().id().as_key();
            self.res.hit("probe.c07.object_checked");
            if let Some(w) = writer_of(p.title(), 'T') {
                if !self.allowed(w, &author) {
                    self.res.violate(&own, "C07", "C07/patch/title-written-by-unauthorised-actor", format!("{name}: the title of {on} is '{}', written by {} who is neither its author nor a delegate", p.title(), self.reps[w].name));
                }
            }
            for l in p.labels() {
                if let Some(w) = writer_of(l.name(), 'l') {
                    if !self.reps[w].delegate {
                        self.res.violate(&own, "C07", "C07/patch/label-written-by-non-delegate", format!("{name}: {on} carries label {} written by {} who is not a delegate", l.name(), self.reps[w].name));
                    }
                }
            }
            let lset: BTreeSet<String> = p.labels().map(|l| l.name().to_string()).collect();
            if !lset.is_empty() && !self.authz.label_sets.get(&id).map(|s| s.contains(&lset)).unwrap_or(false) {
                self.res.violate(&own, "C07", "C07/patch/label-set-not-written-by-a-delegate", format!("{name}: {on} carries the labels {lset:?}, which no delegate wrote as a set (delegates wrote {:?})", self.authz.label_sets.get(&id)));
            }
            let aset: BTreeSet<String> = p.assignees().map(|d| d.to_string()).collect();
            if !aset.is_empty() && !self.authz.assign_sets.get(&id).map(|s| s.contains(&aset)).unwrap_or(false) {
                self.res.violate(&own, "C07", "C07/patch/assignee-set-not-written-by-a-delegate", format!("{name}: {on} is assigned to {} key(s), a set no delegate wrote", aset.len()));
            }
            for a in p.assignees() {
                if ghosts.contains(&a) {
                    self.res.violate(&own, "C07", "C07/patch/assignee-written-by-non-delegate", format!("{name}: {on} is assigned to a key only non-delegates use"));
                }
            }
            for (actor, _) in p.merges() {
                if !self.is_delegate_key(actor) {
                    self.res.violate(&own, "C07", "C07/patch/merge-by-non-delegate", format!("{name}: {on} records a merge by {} who is not a delegate", self.who_key(actor)));
                }
            }
            let mut present: BTreeSet<Oid> = BTreeSet::new();
            let mut live_revs: BTreeSet<Oid> = BTreeSet::new();
            for (rid, rev) in p.revisions() {
                live_revs.insert(Oid::from(rid));
                for (cid, c) in rev.discussion().comments() {
                    present.insert(*cid);
                    self.authz.comments.entry(*cid).or_insert((id, c.author(), Some(Oid::from(rid))));
                    if let Some(w) = writer_of(c.body(), 'B') {
                        if !self.allowed(w, &c.author()) {
                            self.res.violate(&own, "C07", "C07/patch/comment-edited-by-unauthorised-actor", format!("{name}: a comment of {} on {on} reads '{}', written by {}", self.who_key(&c.author()), c.body(), self.reps[w].name));
                        }
                    }
                }
                for (rauthor, rv) in rev.reviews() {
                    present.insert(*rv.id());
                    self.authz.reviews.entry(*rv.id()).or_insert((id, *rauthor, Oid::from(rid)));
                    if let Some(w) = rv.summary().and_then(|s| writer_of(s, 'S')) {
                        if !self.allowed(w, rauthor) {
                            self.res.violate(&own, "C07", "C07/patch/review-edited-by-unauthorised-actor", format!("{name}: the review of {} on {on} has summary '{}', written by {}", self.who_key(rauthor), rv.summary().unwrap_or(""), self.reps[w].name));
                        }
                    }
                }
            }
            let known: Vec<(Oid, PublicKey, Option<Oid>)> = self.authz.comments.iter().filter(|(_, v)| v.0 == id).map(|(c, v)| (*c, v.1, v.2)).chain(self.authz.reviews.iter().filter(|(_, v)| v.0 == id).map(|(c, v)| (*c, v.1, Some(v.2)))).collect();
            for (cid, cauthor, rev) in known {
                let rev_alive = rev.map(|x| live_revs.contains(&x)).unwrap_or(true);
                if rev_alive && !present.contains(&cid) && obj.history.graph().contains(&cid) {
                    // a review is also replaced by a newer review of the same author on the same revision
                    if self.authz.reviews.contains_key(&cid) {
                        let replaced = self.authz.reviews.iter().any(|(o, v)| *o != cid && v.1 == cauthor && Some(v.2) == rev && present.contains(o));
                        if replaced {
                            continue;
                        }
                    }
                    self.res.hit("probe.c07.redacted_comment_checked");
                    let ok = self.authz.redacts.get(&cid).map(|ws| ws.iter().any(|w| self.allowed(*w, &cauthor))).unwrap_or(false);
                    if !ok {
                        self.res.violate(&own, "C07", "C07/patch/comment-or-review-redacted-by-unauthorised-actor", format!("{name}: a comment or review of {} on {on} is redacted but only {:?} wrote redactions of it", self.who_key(&cauthor), self.authz.redacts.get(&cid).map(|ws| ws.iter().map(|w| self.reps[*w].name.clone()).collect::<Vec<_>>()).unwrap_or_default()));
                    }
                }
            }
            for k in obj.history.graph().sorted() {
                let Some(node) = obj.history.graph().get(&k) else { continue };
                let e = &node.value;
                let x = *e.author();
                if self.is_delegate_key(&x) {
                    continue;
                }
                let Some(xi) = self.reps.iter().position(|q| q.nid == x) else { continue };
                for c in e.contents().iter() {
                    let Ok(a) = serde_json::from_slice::<patch::Action>(c) else { continue };
                    let bad = match &a {
                        patch::Action::Edit { .. } | patch::Action::Lifecycle { .. } => x != author && k != *id,
                        patch::Action::Label { labels } => labels.iter().any(|l| writer_of(l.name(), 'l') == Some(xi)),
                        patch::Action::Assign { assignees } => assignees.iter().any(|d| ghosts.contains(d)),
                        patch::Action::Merge { .. } => true,
                        _ => false,
                    };
                    if bad {
                        self.res.violate(&own, "C07", "C07/patch/unauthorised-action-retained", format!("{name}: the history of {on} retains a change of {} (not authorised) with action {}", self.reps[xi].name, String::from_utf8_lossy(c)));
                    }
                }
            }
        }
    }

    pub fn who_key(&self, key: &PublicKey) -> String {
        self.reps.iter().find(|r| r.nid == *key).map(|r| r.name.clone()).unwrap_or_else(|| format!("{:.8}", key.to_string()))
    }
}

//! The identity variant of world C (C04): delegates and non-delegates propose, accept, reject,
//! edit and redact revisions of the repository's identity document on their own replicas,
//! honestly through `IdentityMut` and byzantinely below the validation layer (invalid, foreign
//! and duplicated signatures, multi-action changes, actions on the current revision), and
//! exchange refs in any order. The oracle recomputes, with the Ed25519 primitive only, whether
//! every adopted revision is backed by a strict majority of the delegates of the document it
//! replaces.

use std::collections::{BTreeMap, BTreeSet};

use nonempty::NonEmpty;
use radicle::cob::identity::{self, Action, Identity, RevisionId};
use radicle::cob::store::encoding;
use radicle::cob::ObjectId;
use radicle::crypto::{PublicKey, Signature};
use radicle::git::Oid;
use radicle::identity::{Did, Visibility};
use radicle::storage::git::Repository;
use radicle::storage::{ReadRepository, SignRepository, WriteRepository};
use radicle_cob::change::Storage as _;
use radicle_cob::object::Storage as _;

use super::oracle::ref_tips;
use super::World;
use crate::kit::json::{catch, normalise};

const ID_TITLES: [&str; 3] = ["change", "other change", "third"];

/// What the harness knows about a revision it saw accepted somewhere.
#[derive(Default)]
pub struct IdBook {
    /// revisions seen adopted (state accepted) on the writer's replica when a byzantine edit /
    /// redaction against them was written: (revision, marker title)
    pub edits_after_accept: Vec<(RevisionId, String)>,
    pub redactions_after_accept: BTreeSet<RevisionId>,
    pub seq: u32,
}

fn load(repo: &Repository) -> Result<Identity, String> {
    Identity::load(repo).map_err(|e| normalise(&e.to_string()))
}

fn eval(repo: &Repository, id: &ObjectId) -> Option<(String, Vec<Oid>, BTreeSet<Oid>)> {
    let o = radicle::cob::get::<Identity, _>(repo, &identity::TYPENAME, id).ok()??;
    let mut ids: Vec<Oid> = o.history.graph().sorted().into_iter().collect();
    ids.sort();
    let state = serde_json::to_string(&o.object).unwrap_or_default();
    Some((state, ids, o.history.tips()))
}

impl<'a> World<'a> {
    fn idobj(&self) -> ObjectId {
        // the identity object's id is the root commit of the identity
        let repo = self.repo(0);
        ObjectId::from(repo.identity_root().expect("identity root"))
    }

    pub fn identity_loop(&mut self) {
        let mut book = IdBook::default();
        let oid = self.idobj();
        let steps = 20 + self.ch.pick_usize(50);
        for _ in 0..steps {
            self.ch.mark();
            let r = self.ch.pick_usize(self.reps.len());
            let w = [8u32, 4, 6, 2, 2, 1, if self.faults { 5 } else { 0 }, if self.faults { 1 } else { 0 }];
            match self.ch.weighted(&w) {
                0 => self.id_sync(r, &oid),
                1 => self.id_propose(r),
                2 => self.id_vote(r, true),
                3 => self.id_vote(r, false),
                4 => self.id_edit(r),
                5 => self.id_redact(r),
                6 => self.id_byzantine(r, &oid, &mut book),
                _ => self.id_partition(),
            }
            self.id_check(r, &oid, &book);
            if !self.res.violations.is_empty() {
                return;
            }
        }
        self.ch.mark();
        self.id_finish(&oid, &book);
    }

    fn id_partition(&mut self) {
        let a = self.ch.pick_usize(self.reps.len());
        let b = self.ch.pick_usize(self.reps.len());
        if a == b {
            return;
        }
        let k = (a.min(b), a.max(b));
        if self.partitioned.remove(&k) {
            self.res.hit("fault.net.partition_healed");
        } else {
            self.partitioned.insert(k);
            self.res.hit("fault.net.partition");
        }
        self.res.trace.log("partition", format!("partition toggled between {} and {}", self.reps[k.0].name, self.reps[k.1].name));
    }

    fn id_sync(&mut self, x: usize, oid: &ObjectId) {
        let z = self.ch.pick_usize(self.reps.len());
        if z == x {
            return;
        }
        if self.partitioned.contains(&(x.min(z), x.max(z))) {
            self.res.hit("fault.net.sync_blocked");
            return;
        }
        let ns = if self.ch.pick(3) != 2 { None } else { Some(self.ch.pick_usize(self.reps.len())) };
        let ups = self.pull_refs(x, z, ns);
        self.res.hit("probe.cob.sync");
        if ns.is_some() {
            self.res.hit("fault.net.partial_sync");
        }
        self.res.trace.log("sync", format!("{} fetches {} from {} ({} ref update(s))", self.reps[x].name, ns.map(|k| format!("namespace {}", self.reps[k].name)).unwrap_or_else(|| "everything".into()), self.reps[z].name, ups.len()));
        self.id_pairwise(oid);
    }

    fn rname(&self, rev: &RevisionId) -> String {
        format!("rev:{:.7}", rev.to_string())
    }

    fn who(&self, key: &PublicKey) -> String {
        self.reps.iter().find(|r| r.nid == *key).map(|r| r.name.clone()).unwrap_or_else(|| format!("{:.8}", key.to_string()))
    }

    /// Propose a change of the document as seen on `r`'s replica.
    fn id_propose(&mut self, r: usize) {
        self.stamp(r);
        let repo = self.repo(r);
        let signer = self.reps[r].signer.clone();
        let Ok(mut identity) = Identity::load_mut(&repo) else {
            self.res.trace.log("id-load-failed", format!("{}: identity does not load", self.reps[r].name));
            return;
        };
        let doc = identity.doc().clone();
        let delegates: Vec<Did> = doc.delegates().iter().copied().collect();
        let all: Vec<Did> = self.reps.iter().map(|x| Did::from(x.nid)).collect();
        let outsiders: Vec<Did> = all.iter().copied().filter(|d| !delegates.contains(d)).collect();
        let kind = self.ch.weighted(&[4, 3, 2, 1]);
        let mut what = String::new();
        let pick_out = if outsiders.is_empty() { None } else { Some(outsiders[self.ch.pick_usize(outsiders.len())]) };
        let pick_in = delegates[self.ch.pick_usize(delegates.len())];
        let thr = 1 + self.ch.pick_usize(delegates.len() + 1);
        let new = doc.clone().with_edits(|raw| match kind {
            0 if pick_out.is_some() => {
                raw.delegates.push(pick_out.unwrap());
                what = "add a delegate".into();
            }
            1 if raw.delegates.len() > 1 => {
                raw.delegates.retain(|d| *d != pick_in);
                raw.threshold = raw.threshold.min(raw.delegates.len());
                what = "remove a delegate".into();
            }
            2 => {
                raw.threshold = thr.min(raw.delegates.len()).max(1);
                what = format!("threshold {}", raw.threshold);
            }
            _ => {
                raw.visibility = if raw.visibility.is_public() { Visibility::private([]) } else { Visibility::Public };
                what = "toggle visibility".into();
            }
        });
        let Ok(new) = new else {
            self.res.trace.log("id-propose-invalid", format!("{} could not build a document ({what})", self.reps[r].name));
            return;
        };
        let title = *self.ch.choose(&ID_TITLES);
        let out = catch(|| identity.update(title, "", &new, &signer).map_err(|e| e.to_string()));
        match out {
            Ok(Ok(rev)) => {
                self.res.hit("probe.id.revision_proposed");
                let adopted = identity.current == rev;
                if adopted {
                    self.res.hit("probe.id.adopted_on_proposal");
                }
                self.res.trace.log("id-propose", format!("{} proposes {} ({what}){}", self.reps[r].name, self.rname(&rev), if adopted { ", adopted at once" } else { "" }));
                if adopted {
                    let _ = repo.set_identity_head_to(rev);
                    let _ = repo.sign_refs(&signer);
                }
            }
            Ok(Err(e)) => self.res.trace.log("id-propose-refused", format!("{} proposal refused ({what}): {}", self.reps[r].name, normalise(&e))),
            Err(p) => {
                let own = self.own.clone();
                self.res.violate(&own, "C13", &format!("C04/panic/{}", p.class()), format!("{} proposing a revision panicked: {}", self.reps[r].name, p.message));
            }
        }
    }

    fn revisions_of(&self, repo: &Repository) -> Vec<(RevisionId, identity::State, PublicKey)> {
        match load(repo) {
            Ok(i) => i.revisions().map(|r| (r.id, r.state, *r.author.public_key())).collect(),
            Err(_) => vec![],
        }
    }

    fn id_vote(&mut self, r: usize, accept: bool) {
        if self.ch.pick(2) == 0 {
            // the voter first catches up with somebody
            let z = self.ch.pick_usize(self.reps.len());
            if z != r && !self.partitioned.contains(&(r.min(z), r.max(z))) {
                let ups = self.pull_refs(r, z, None);
                self.res.hit("probe.cob.sync");
                self.res.trace.log("sync", format!("{} fetches everything from {} ({} ref update(s))", self.reps[r].name, self.reps[z].name, ups.len()));
            }
        }
        // mostly somebody who can vote: a delegate in its own view with an active revision it has not voted on
        let mut able: Vec<(usize, RevisionId)> = Vec::new();
        for x in 0..self.reps.len() {
            let repo = self.repo(x);
            if let Ok(i) = load(&repo) {
                if i.doc().is_delegate(&Did::from(self.reps[x].nid)) {
                    for rev in i.revisions() {
                        if rev.state == identity::State::Active && !rev.verdicts().any(|(k, _)| *k == self.reps[x].nid) {
                            able.push((x, rev.id));
                        }
                    }
                }
            }
        }
        let forced = if !able.is_empty() && self.ch.pick(5) != 4 { Some(able[self.ch.pick_usize(able.len())]) } else { None };
        let r = forced.map(|f| f.0).unwrap_or(r);
        self.stamp(r);
        let repo = self.repo(r);
        let signer = self.reps[r].signer.clone();
        let revs = self.revisions_of(&repo);
        if revs.is_empty() {
            return;
        }
        // mostly an active revision
        let active: Vec<&(RevisionId, identity::State, PublicKey)> = revs.iter().filter(|x| x.1 == identity::State::Active).collect();
        let rev = if let Some(f) = forced {
            f.1
        } else if !active.is_empty() && self.ch.pick(5) != 4 {
            active[self.ch.pick_usize(active.len())].0
        } else {
            revs[self.ch.pick_usize(revs.len())].0
        };
        let Ok(mut identity) = Identity::load_mut(&repo) else { return };
        let out = catch(|| if accept { identity.accept(&rev, &signer).map_err(|e| e.to_string()) } else { identity.reject(rev, &signer).map_err(|e| e.to_string()) });
        let verb = if accept { "accept" } else { "reject" };
        match out {
            Ok(Ok(_)) => {
                self.res.hit(if accept { "probe.id.accept_ok" } else { "probe.id.reject_ok" });
                let adopted = identity.current == rev;
                self.res.trace.log(&format!("id-{verb}"), format!("{} {verb}s {}{}", self.reps[r].name, self.rname(&rev), if adopted { ": adopted" } else { "" }));
                if adopted && accept {
                    self.res.hit("probe.id.adopted_by_accept");
                    let _ = repo.set_identity_head_to(rev);
                    let _ = repo.sign_refs(&signer);
                }
            }
            Ok(Err(e)) => {
                self.res.hit("probe.id.vote_refused");
                self.res.trace.log(&format!("id-{verb}-refused"), format!("{} cannot {verb} {}: {}", self.reps[r].name, self.rname(&rev), normalise(&e)));
            }
            Err(p) => {
                let own = self.own.clone();
                self.res.violate(&own, "C13", &format!("C04/panic/{}", p.class()), format!("{} voting panicked: {}", self.reps[r].name, p.message));
            }
        }
    }

    fn id_edit(&mut self, r: usize) {
        self.stamp(r);
        let repo = self.repo(r);
        let signer = self.reps[r].signer.clone();
        let revs = self.revisions_of(&repo);
        if revs.is_empty() {
            return;
        }
        let rev = revs[self.ch.pick_usize(revs.len())].0;
        let Ok(mut identity) = Identity::load_mut(&repo) else { return };
        let title = format!("edited {}", self.ch.pick(3));
        let out = catch(|| identity.edit(rev, title.clone(), String::new(), &signer).map_err(|e| e.to_string()));
        match out {
            Ok(Ok(_)) => {
                self.res.hit("probe.id.edit_ok");
                self.res.trace.log("id-edit", format!("{} edits {}", self.reps[r].name, self.rname(&rev)));
            }
            Ok(Err(e)) => self.res.trace.log("id-edit-refused", format!("{} cannot edit {}: {}", self.reps[r].name, self.rname(&rev), normalise(&e))),
            Err(p) => {
                let own = self.own.clone();
                self.res.violate(&own, "C13", &format!("C04/panic/{}", p.class()), format!("{} editing panicked: {}", self.reps[r].name, p.message));
            }
        }
    }

    fn id_redact(&mut self, r: usize) {
        self.stamp(r);
        let repo = self.repo(r);
        let signer = self.reps[r].signer.clone();
        let revs = self.revisions_of(&repo);
        if revs.is_empty() {
            return;
        }
        let rev = revs[self.ch.pick_usize(revs.len())].0;
        let Ok(mut identity) = Identity::load_mut(&repo) else { return };
        let out = catch(|| identity.redact(rev, &signer).map_err(|e| e.to_string()));
        match out {
            Ok(Ok(_)) => {
                self.res.hit("probe.id.redact_ok");
                self.res.trace.log("id-redact", format!("{} redacts {}", self.reps[r].name, self.rname(&rev)));
            }
            Ok(Err(e)) => self.res.trace.log("id-redact-refused", format!("{} cannot redact {}: {}", self.reps[r].name, self.rname(&rev), normalise(&e))),
            Err(p) => {
                let own = self.own.clone();
                self.res.violate(&own, "C13", &format!("C04/panic/{}", p.class()), format!("{} redacting panicked: {}", self.reps[r].name, p.message));
            }
        }
    }

    /// A change written below the validation layer.
    fn id_byzantine(&mut self, r: usize, oid: &ObjectId, book: &mut IdBook) {
        self.stamp(r);
        let repo = self.repo(r);
        let signer = self.reps[r].signer.clone();
        let nid = self.reps[r].nid;
        let Ok(identity) = load(&repo) else { return };
        let Ok(Some(obj)) = radicle::cob::get::<Identity, _>(&repo, &identity::TYPENAME, oid) else { return };
        let revs: Vec<identity::Revision> = identity.revisions().cloned().collect();
        let active: Vec<&identity::Revision> = revs.iter().filter(|x| x.state == identity::State::Active).collect();
        let target: &identity::Revision = if !active.is_empty() && self.ch.pick(4) != 3 { active[self.ch.pick_usize(active.len())] } else { &revs[self.ch.pick_usize(revs.len())] };
        let current = identity.current;
        let other = self.ch.pick_usize(self.reps.len());
        let sig_valid: Signature = target.sign(&signer).expect("sign");
        let sig_random: Signature = Signature::from(<[u8; 64]>::try_from(self.ch.bytes(64).as_slice()).unwrap());
        let sig_other_blob: Signature = identity.current().sign(&signer).expect("sign");
        let sig_other_key: Signature = target.sign(&self.reps[other].signer).expect("sign");
        book.seq += 1;
        let marker = format!("marker {}", book.seq);
        // mostly on top of everything the author knows; sometimes on top of the root only, that is
        // concurrent with everything else (then "written after the acceptance" does not hold)
        let on_root_only = self.ch.pick(4) == 3;
        let tips: Vec<Oid> = if on_root_only { vec![Oid::from(**oid)] } else { obj.history.tips().into_iter().collect() };
        let kind;
        let mut embeds: Vec<radicle_cob::Embed<Oid>> = vec![];
        let acts: Vec<Action> = match self.ch.pick(11) {
            0 => {
                kind = "accept-with-random-signature";
                vec![Action::RevisionAccept { revision: target.id, signature: sig_random }]
            }
            1 => {
                kind = "accept-with-signature-over-the-current-document";
                vec![Action::RevisionAccept { revision: target.id, signature: sig_other_blob }]
            }
            2 => {
                kind = "accept-with-another-delegates-signature";
                vec![Action::RevisionAccept { revision: target.id, signature: sig_other_key }]
            }
            3 => {
                kind = "valid-accept-then-edit-of-a-foreign-revision";
                // the edit is not authorised unless the target is the author's own: then edit the current one
                let victim = if target.author.public_key() == &nid { current } else { target.id };
                vec![Action::RevisionAccept { revision: target.id, signature: sig_valid }, Action::RevisionEdit { revision: victim, title: marker.clone(), description: String::new() }]
            }
            4 => {
                kind = "reject-then-accept-with-random-signature";
                vec![Action::RevisionReject { revision: target.id }, Action::RevisionAccept { revision: target.id, signature: sig_random }]
            }
            5 => {
                kind = "accept-twice";
                vec![Action::RevisionAccept { revision: target.id, signature: sig_valid }, Action::RevisionAccept { revision: target.id, signature: sig_valid }]
            }
            6 => {
                kind = "redact-the-current-revision";
                book.redactions_after_accept.insert(current);
                vec![Action::RevisionRedact { revision: current }]
            }
            7 => {
                kind = "edit-the-current-revision";
                if !on_root_only {
                    book.edits_after_accept.push((current, marker.clone()));
                }
                vec![Action::RevisionEdit { revision: current, title: marker.clone(), description: String::new() }]
            }
            8 => {
                // an accepted ancestor, if any
                kind = "redact-or-edit-an-accepted-ancestor";
                let accepted: Vec<&identity::Revision> = revs.iter().filter(|x| x.state == identity::State::Accepted).collect();
                let a = accepted[self.ch.pick_usize(accepted.len())];
                if self.ch.pick(2) == 0 {
                    book.redactions_after_accept.insert(a.id);
                    vec![Action::RevisionRedact { revision: a.id }]
                } else {
                    if !on_root_only {
                        book.edits_after_accept.push((a.id, marker.clone()));
                    }
                    vec![Action::RevisionEdit { revision: a.id, title: marker.clone(), description: String::new() }]
                }
            }
            9 => {
                kind = "plain-valid-accept-below-the-api";
                vec![Action::RevisionAccept { revision: target.id, signature: sig_valid }]
            }
            _ => {
                // a revision whose signature does not verify, or is made by another key
                kind = "revision-with-bad-signature";
                let doc = identity.doc().clone();
                let thr = if doc.threshold() > 1 { 1 } else { doc.delegates().len() };
                let all: Vec<Did> = self.reps.iter().map(|x| Did::from(x.nid)).collect();
                let newd = all[self.ch.pick_usize(all.len())];
                let Ok(new) = doc.clone().with_edits(|raw| {
                    raw.threshold = thr;
                    if !raw.delegates.contains(&newd) {
                        raw.delegates.push(newd);
                    }
                }) else {
                    return;
                };
                if new == doc {
                    return;
                }
                let Ok((blob, bytes, _sig)) = new.sign(&signer) else { return };
                let Ok(b) = repo.backend.blob(&bytes) else { return };
                assert_eq!(Oid::from(b), blob);
                embeds.push(radicle_cob::Embed { name: "radicle.json".to_string(), content: blob });
                let signature = if self.ch.pick(2) == 0 { sig_random } else { new.sign(&self.reps[other].signer).expect("sign").2 };
                vec![Action::Revision { title: marker.clone(), description: String::new(), blob, parent: Some(current), signature }]
            }
        };
        let contents: Vec<Vec<u8>> = acts.iter().map(|a| encoding::encode(a).unwrap()).collect();
        let Some(contents) = NonEmpty::from_vec(contents) else { return };
        let out = catch(|| -> Result<(), String> {
            let entry = repo
                .store(None, vec![], &signer, radicle_cob::change::Template { type_name: identity::TYPENAME.clone(), tips, message: "byzantine change".to_string(), embeds, contents })
                .map_err(|e| e.to_string())?;
            repo.update(&nid, &identity::TYPENAME, oid, &entry.id).map_err(|e| e.to_string())?;
            repo.sign_refs(&signer).map_err(|e| e.to_string())?;
            Ok(())
        });
        let is_delegate = identity.doc().is_delegate(&Did::from(nid));
        match out {
            Ok(Ok(())) => {
                self.res.hit("fault.id.byzantine_change");
                self.res.hit(&format!("fault.id.byzantine.{kind}"));
                if !is_delegate {
                    self.res.hit("fault.id.change_by_non_delegate");
                }
                self.res.trace.log(&format!("id-byzantine-{kind}"), format!("{} ({}) writes a raw change: {kind} on {} (signature of {})", self.reps[r].name, if is_delegate { "delegate" } else { "not a delegate" }, self.rname(&target.id), self.reps[other].name));
            }
            Ok(Err(e)) => self.res.trace.log("byzantine-error", format!("raw change could not be written: {}", normalise(&e))),
            Err(p) => self.res.trace.log("byzantine-panic", format!("raw change panicked: {}", p.message)),
        }
        let _ = WriteRepository::raw(&repo);
    }

    /// The C04 oracle on replica `r`.
    pub fn id_check(&mut self, r: usize, oid: &ObjectId, book: &IdBook) {
        let own = self.own.clone();
        let repo = self.repo(r);
        let name = self.reps[r].name.clone();
        let out = catch(|| radicle::cob::get::<Identity, _>(&repo, &identity::TYPENAME, oid).map_err(|e| e.to_string()));
        let identity = match out {
            Ok(Ok(Some(o))) => o.object,
            Ok(Ok(None)) => {
                self.res.hit("probe.id.no_identity_object");
                return;
            }
            Ok(Err(e)) => {
                self.res.trace.log("id-eval-error", format!("{name}: identity does not evaluate: {}", normalise(&e)));
                self.res.hit("probe.id.evaluation_failed");
                return;
            }
            Err(p) => {
                self.res.violate(&own, "C13", &format!("C04/panic/{}", p.class()), format!("{name}: evaluating the identity panicked: {}", p.message));
                return;
            }
        };
        self.res.hit("probe.c04.identity_checked");
        let by_id: BTreeMap<RevisionId, &identity::Revision> = identity.revisions().map(|r| (r.id, r)).collect();
        // ---- the chain from the current revision back to the root
        let mut chain: Vec<RevisionId> = Vec::new();
        let mut cur = identity.current;
        loop {
            let Some(rev) = by_id.get(&cur) else {
                self.res.violate(&own, "C04", "C04/revision-on-current-chain-missing-or-redacted", format!("{name}: {} is on the chain of the current document but is redacted or missing", self.rname(&cur)));
                return;
            };
            chain.push(cur);
            if chain.len() > 200 {
                self.res.violate(&own, "C04", "C04/parent-chain-cycle", format!("{name}: the parent chain of the current revision does not end"));
                return;
            }
            match rev.parent {
                Some(p) => cur = p,
                None => break,
            }
        }
        if *chain.last().unwrap() != identity.root {
            self.res.violate(&own, "C04", "C04/chain-does-not-reach-root", format!("{name}: the chain of the current revision ends at {} instead of the root", self.rname(chain.last().unwrap())));
        }
        if chain.len() >= 2 {
            self.res.hit("probe.c04.adopted_revision_checked");
        }
        if chain.len() >= 3 {
            self.res.hit("probe.c04.chain_of_two_or_more_adoptions");
        }
        for w in chain.windows(2) {
            let (rev, parent) = (by_id[&w[0]], by_id[&w[1]]);
            let delegates: Vec<Did> = parent.doc.delegates().iter().copied().collect();
            let mut valid = 0;
            let mut details = Vec::new();
            for d in &delegates {
                let key: PublicKey = **d;
                match rev.verdicts().find(|(k, _)| **k == key) {
                    Some((_, identity::Verdict::Accept(sig))) => {
                        if key.verify(rev.blob.as_bytes(), sig).is_ok() {
                            valid += 1;
                            details.push(format!("{}:valid", self.who(&key)));
                        } else {
                            details.push(format!("{}:INVALID-signature", self.who(&key)));
                        }
                    }
                    Some((_, identity::Verdict::Reject)) => details.push(format!("{}:reject", self.who(&key))),
                    None => details.push(format!("{}:none", self.who(&key))),
                }
            }
            if delegates.len() >= 2 {
                self.res.hit("probe.c04.adopted_with_two_or_more_delegates");
            }
            if 2 * valid <= delegates.len() {
                self.res.trace.log("c04-minority", format!("MINORITY ADOPTED on {name}: {} with {valid}/{} valid signatures [{}]", self.rname(&rev.id), delegates.len(), details.join(" ")));
                self.res.violate(&own, "C04", "C04/adopted-without-majority-of-valid-signatures", format!("{name}: {} replaced {} with {valid} valid accepting signature(s) of the {} delegate(s) of the replaced document [{}]", self.rname(&rev.id), self.rname(&parent.id), delegates.len(), details.join(" ")));
            } else if valid == delegates.len() / 2 + 1 {
                self.res.hit("probe.c04.adopted_with_exact_majority");
            }
            if rev.state != identity::State::Accepted {
                self.res.violate(&own, "C04", "C04/adopted-revision-not-in-accepted-state", format!("{name}: {} is on the chain of the current document but its state is {}", self.rname(&rev.id), rev.state));
            }
        }
        // ---- accepted revisions are exactly the chain
        for rev in identity.revisions() {
            if rev.state == identity::State::Accepted && !chain.contains(&rev.id) {
                self.res.violate(&own, "C04", "C04/accepted-revision-off-the-current-chain", format!("{name}: {} is accepted but the current document does not descend from it", self.rname(&rev.id)));
            }
        }
        // (No oracle on "an accepted revision is not edited afterwards": whether an edit written after the
        // writer saw the acceptance is applied before or after the adopting vote on a replica that holds more
        // concurrent changes is decided by the deterministic order, so no state-based statement about it is
        // sound. Edits of the current revision are refused twice in the code: current, and not active.)
        let _ = &book.edits_after_accept;
        let _ = &book.redactions_after_accept; // redaction of a chain member is caught by the chain walk
        // ---- the document the repository uses is the current revision's
        if let Ok(doc) = repo.identity_doc() {
            let _ = doc;
        }
    }

    /// C05 for identities: same tips, same state.
    fn id_pairwise(&mut self, oid: &ObjectId) {
        let own = self.own.clone();
        let repos: Vec<Repository> = (0..self.reps.len()).map(|r| self.repo(r)).collect();
        let tips: Vec<BTreeSet<Oid>> = repos.iter().map(|r| ref_tips(r, &identity::TYPENAME, oid)).collect();
        for a in 0..repos.len() {
            for b in a + 1..repos.len() {
                if tips[a].is_empty() || tips[a] != tips[b] {
                    continue;
                }
                self.res.hit("probe.c05.identity_same_tips_compared");
                if eval(&repos[a], oid) != eval(&repos[b], oid) {
                    self.res.violate(&own, "C05", "C05/identity/same-tips/differs", format!("{} and {} hold the same tips of the identity but evaluate it differently", self.reps[a].name, self.reps[b].name));
                }
            }
        }
    }

    fn id_finish(&mut self, oid: &ObjectId, book: &IdBook) {
        let own = self.own.clone();
        self.partitioned.clear();
        for _round in 0..2 {
            for x in 0..self.reps.len() {
                for z in 0..self.reps.len() {
                    if x != z {
                        self.pull_refs(x, z, None);
                    }
                }
            }
        }
        self.res.trace.log("anti-entropy", "anti-entropy: everybody fetched everything from everybody, twice".to_string());
        for r in 0..self.reps.len() {
            self.id_check(r, oid, book);
            if !self.res.violations.is_empty() {
                return;
            }
        }
        let repos: Vec<Repository> = (0..self.reps.len()).map(|r| self.repo(r)).collect();
        let e0 = eval(&repos[0], oid);
        for (i, r) in repos.iter().enumerate().skip(1) {
            if eval(r, oid) != e0 {
                if ref_tips(&repos[0], &identity::TYPENAME, oid) != ref_tips(r, &identity::TYPENAME, oid) {
                    self.res.hit("harness.anti_entropy_incomplete");
                    return;
                }
                self.res.violate(&own, "C05", "C05/identity/after-anti-entropy/replicas-differ", format!("after anti-entropy {} and {} evaluate the identity differently", self.reps[0].name, self.reps[i].name));
                return;
            }
        }
        self.res.hit("probe.c05.identity_converged");
    }
}

pub mod dframe;
pub mod node;
pub mod dcrdt;
pub mod dlimiter;
pub mod dsync;
pub mod dagent;
pub mod dstore;
pub mod dresponder;

/// Identity of an announcement: hash of its wire encoding.
pub fn node_ann_id(a: &radicle_node::service::message::Announcement) -> u64 {
    crate::kit::fnv(crate::kit::FNV0, &radicle_node::wire::serialize(&radicle_node::service::Message::Announcement(a.clone())))
}
pub mod fetch;
pub mod cob;

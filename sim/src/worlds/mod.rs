pub mod dframe;
pub mod node;

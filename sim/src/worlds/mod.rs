pub mod dframe;

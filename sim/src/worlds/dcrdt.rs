//! D-crdt (C22, restated as replica convergence): n replicas of one radicle-crdt value
//! exchange *states* over a mesh that drops, delays, duplicates and reorders them, with
//! clocks from a 3-value domain so that equal-clock conflicts are the norm.

use radicle_crdt::{GMap, GSet, LWWMap, LWWReg, LWWSet, Max, Min, Redactable, Semilattice};

use crate::kit::{Chooser, RunCfg, RunResult};

/// What the harness remembers about every local update (the model side).
#[derive(Clone, Debug)]
pub struct Op {
    key: u8,
    clock: u8,
    insert: bool,
    value: u8,
}

trait Crdt: Semilattice + Clone + PartialEq + std::fmt::Debug {
    const NAME: &'static str;
    fn bottom() -> Self;
    fn apply(&mut self, op: &Op);
    /// Compare the converged state with what the statement promises for this history.
    fn check(&self, ops: &[Op]) -> Result<(), String>;
}

fn max_by_key(ops: &[Op], key: u8) -> Option<u8> {
    ops.iter().filter(|o| o.key == key).map(|o| o.clock).max()
}

impl Crdt for GSet<u8> {
    const NAME: &'static str = "GSet";
    fn bottom() -> Self {
        GSet::default()
    }
    fn apply(&mut self, op: &Op) {
        self.insert(op.key);
    }
    fn check(&self, ops: &[Op]) -> Result<(), String> {
        let mut want: Vec<u8> = ops.iter().map(|o| o.key).collect();
        want.sort();
        want.dedup();
        let have: Vec<u8> = self.iter().copied().collect();
        if want == have { Ok(()) } else { Err(format!("GSet holds {have:?}, inserted {want:?}")) }
    }
}

impl Crdt for GMap<u8, Max<u8>> {
    const NAME: &'static str = "GMap";
    fn bottom() -> Self {
        GMap::default()
    }
    fn apply(&mut self, op: &Op) {
        self.insert(op.key, Max::from(op.value));
    }
    fn check(&self, ops: &[Op]) -> Result<(), String> {
        for k in 0..3u8 {
            let want = ops.iter().filter(|o| o.key == k).map(|o| o.value).max();
            let have = self.get(&k).map(|m| *m.get());
            if want != have {
                return Err(format!("GMap[{k}] = {have:?}, expected the join {want:?}"));
            }
        }
        Ok(())
    }
}

impl Crdt for LWWReg<Max<u8>, u8> {
    const NAME: &'static str = "LWWReg";
    fn bottom() -> Self {
        LWWReg::default()
    }
    fn apply(&mut self, op: &Op) {
        self.set(Max::from(op.value), op.clock);
    }
    fn check(&self, ops: &[Op]) -> Result<(), String> {
        let Some(mc) = ops.iter().map(|o| o.clock).max() else { return Ok(()) };
        // at the greatest clock, concurrent values are joined (Max)
        let want = ops.iter().filter(|o| o.clock == mc).map(|o| o.value).max().unwrap();
        // writes at clock 0 meet the initial value (clock 0, value 0): joined as well
        if **self.clock() != mc {
            return Err(format!("LWWReg clock {} != greatest written clock {mc}", **self.clock()));
        }
        if *self.get().get() != want {
            return Err(format!("LWWReg exposes {}, value written with the greatest clock {mc} is {want}", self.get().get()));
        }
        Ok(())
    }
}

impl Crdt for LWWSet<u8, u8> {
    const NAME: &'static str = "LWWSet";
    fn bottom() -> Self {
        LWWSet::default()
    }
    fn apply(&mut self, op: &Op) {
        if op.insert {
            self.insert(op.key, op.clock)
        } else {
            self.remove(op.key, op.clock)
        }
    }
    fn check(&self, ops: &[Op]) -> Result<(), String> {
        for k in 0..3u8 {
            let Some(mc) = max_by_key(ops, k) else { continue };
            // at equal clocks an insertion wins over a removal
            let want = ops.iter().any(|o| o.key == k && o.clock == mc && o.insert);
            if self.contains(&k) != want {
                return Err(format!("LWWSet contains({k}) = {}, but the greatest clock {mc} has {}", self.contains(&k), if want { "an insertion" } else { "only removals" }));
            }
        }
        Ok(())
    }
}

impl Crdt for LWWMap<u8, Max<u8>, u8> {
    const NAME: &'static str = "LWWMap";
    fn bottom() -> Self {
        LWWMap::default()
    }
    fn apply(&mut self, op: &Op) {
        if op.insert {
            self.insert(op.key, Max::from(op.value), op.clock)
        } else {
            self.remove(op.key, op.clock)
        }
    }
    fn check(&self, ops: &[Op]) -> Result<(), String> {
        for k in 0..3u8 {
            let Some(mc) = max_by_key(ops, k) else { continue };
            let ins: Vec<u8> = ops.iter().filter(|o| o.key == k && o.clock == mc && o.insert).map(|o| o.value).collect();
            let want = ins.iter().max().copied();
            let have = self.get(&k).map(|m| *m.get());
            if want != have {
                return Err(format!("LWWMap[{k}] = {have:?}, expected {want:?} (greatest clock {mc})"));
            }
        }
        Ok(())
    }
}

impl Crdt for Max<u8> {
    const NAME: &'static str = "Max";
    fn bottom() -> Self {
        Max::from(0)
    }
    fn apply(&mut self, op: &Op) {
        self.merge(Max::from(op.value));
    }
    fn check(&self, ops: &[Op]) -> Result<(), String> {
        let want = ops.iter().map(|o| o.value).max().unwrap_or(0);
        if *self.get() == want { Ok(()) } else { Err(format!("Max = {}, greatest value {want}", self.get())) }
    }
}

impl Crdt for Min<u8> {
    const NAME: &'static str = "Min";
    fn bottom() -> Self {
        Min::from(u8::MAX)
    }
    fn apply(&mut self, op: &Op) {
        self.merge(Min::from(op.value));
    }
    fn check(&self, ops: &[Op]) -> Result<(), String> {
        let want = ops.iter().map(|o| o.value).min().unwrap_or(u8::MAX);
        if **self == want { Ok(()) } else { Err(format!("Min = {}, smallest value {want}", **self)) }
    }
}

impl Crdt for Option<Redactable<u8>> {
    const NAME: &'static str = "Option<Redactable>";
    fn bottom() -> Self {
        None
    }
    fn apply(&mut self, op: &Op) {
        let v = if op.insert { Redactable::Present(op.value % 2) } else { Redactable::Redacted };
        self.merge(Some(v));
    }
    fn check(&self, ops: &[Op]) -> Result<(), String> {
        if ops.is_empty() {
            return if self.is_none() { Ok(()) } else { Err("non-bottom without updates".into()) };
        }
        let redacted = ops.iter().any(|o| !o.insert);
        let mut vals: Vec<u8> = ops.iter().filter(|o| o.insert).map(|o| o.value % 2).collect();
        vals.sort();
        vals.dedup();
        let want = if redacted || vals.len() > 1 { Redactable::Redacted } else { Redactable::Present(vals[0]) };
        if *self == Some(want.clone()) { Ok(()) } else { Err(format!("{self:?}, expected {want:?}")) }
    }
}

impl Crdt for bool {
    const NAME: &'static str = "bool";
    fn bottom() -> Self {
        false
    }
    fn apply(&mut self, op: &Op) {
        self.merge(op.insert);
    }
    fn check(&self, ops: &[Op]) -> Result<(), String> {
        let want = ops.iter().any(|o| o.insert);
        if *self == want { Ok(()) } else { Err(format!("bool = {self}, expected {want}")) }
    }
}

fn world<S: Crdt>(ch: &mut Chooser, own: &str, res: &mut RunResult) {
    let n = 2 + ch.pick_usize(3);
    let faults = ch.pick(4) != 0;
    let steps = 3 + ch.pick_usize(14);
    let mut reps: Vec<S> = (0..n).map(|_| S::bottom()).collect();
    let mut ops: Vec<Op> = Vec::new();
    // messages in flight: (to, state snapshot)
    let mut flight: Vec<(usize, S)> = Vec::new();
    let mut pool: Vec<S> = vec![S::bottom()];
    res.trace.log("setup", format!("type={} replicas={n} steps={steps} faults={faults}", S::NAME));
    for _ in 0..steps {
        ch.mark();
        match ch.weighted(&[4, 4, 3]) {
            0 => {
                let r = ch.pick_usize(n);
                let op = Op { key: ch.pick(3) as u8, clock: ch.pick(3) as u8, insert: ch.pick(3) != 0, value: ch.pick(4) as u8 };
                reps[r].apply(&op);
                res.trace.log("update", format!("r{r} update key={} clock={} {} value={}", op.key, op.clock, if op.insert { "insert" } else { "remove" }, op.value));
                ops.push(op);
                pool.push(reps[r].clone());
            }
            1 => {
                let from = ch.pick_usize(n);
                let to = ch.pick_usize(n);
                flight.push((to, reps[from].clone()));
                res.trace.log("send", format!("r{from} sends its state to r{to}"));
            }
            _ => {
                if flight.is_empty() {
                    continue;
                }
                // 0 => oldest message delivered once
                let k = if faults { ch.pick_usize(flight.len()) } else { 0 };
                if k != 0 {
                    res.hit("fault.net.reordered_delivery");
                }
                let fate = if faults { ch.weighted(&[5, 2, 2]) } else { 0 };
                let (to, st) = flight[k].clone();
                match fate {
                    0 => {
                        flight.remove(k);
                        reps[to].merge(st);
                        res.trace.log("deliver", format!("r{to} merges a received state"));
                    }
                    1 => {
                        flight.remove(k);
                        res.hit("fault.net.message_lost");
                        res.trace.log("drop", format!("message to r{to} lost"));
                    }
                    _ => {
                        // duplicate: delivered now and stays in flight
                        reps[to].merge(st);
                        res.hit("fault.net.duplicate_delivery");
                        res.trace.log("dup", format!("r{to} merges a state that will be delivered again"));
                    }
                }
                pool.push(reps[to].clone());
            }
        }
    }
    // late deliveries of everything still in flight (delayed messages), then fault-free anti-entropy
    for (to, st) in flight.drain(..) {
        reps[to].merge(st);
    }
    for _round in 0..2 {
        for i in 0..n {
            for j in 0..n {
                if i != j {
                    let s = reps[i].clone();
                    reps[j].merge(s);
                }
            }
        }
    }
    for i in 1..n {
        if reps[i] != reps[0] {
            res.trace.log("diverged", format!("r{i} = {:?} but r0 = {:?}", reps[i], reps[0]));
            res.violate(own, "C22", &format!("C22/divergence/{}", S::NAME), format!("{}: replicas diverge after fault-free anti-entropy: r0 = {:?}, r{i} = {:?}", S::NAME, reps[0], reps[i]));
            return;
        }
    }
    // idempotence: re-delivering any state changes nothing
    for s in pool.iter() {
        let mut a = reps[0].clone();
        a.merge(s.clone());
        if a != reps[0] {
            res.violate(own, "C22", &format!("C22/not-idempotent-or-not-absorbing/{}", S::NAME), format!("{}: merging an earlier state {:?} into the converged state {:?} changed it to {:?}", S::NAME, s, reps[0], a));
            return;
        }
    }
    // equals the fold of all updates in the harness' fixed order (=> commutativity, associativity)
    let mut folded = S::bottom();
    for op in &ops {
        folded.apply(op);
    }
    if folded != reps[0] {
        res.violate(own, "C22", &format!("C22/order-dependent/{}", S::NAME), format!("{}: converged state {:?} differs from applying all updates in issue order {:?}", S::NAME, reps[0], folded));
        return;
    }
    // laws on states reached in this history
    let m = pool.len();
    for _ in 0..8 {
        let (a, b, c) = (pool[ch.pick_usize(m)].clone(), pool[ch.pick_usize(m)].clone(), pool[ch.pick_usize(m)].clone());
        if a.clone().join(b.clone()) != b.clone().join(a.clone()) {
            res.violate(own, "C22", &format!("C22/not-commutative/{}", S::NAME), format!("{}: {:?} v {:?}", S::NAME, a, b));
            return;
        }
        if a.clone().join(b.clone()).join(c.clone()) != a.clone().join(b.clone().join(c.clone())) {
            res.violate(own, "C22", &format!("C22/not-associative/{}", S::NAME), format!("{}: {:?}, {:?}, {:?}", S::NAME, a, b, c));
            return;
        }
        if a.clone().join(a.clone()) != a {
            res.violate(own, "C22", &format!("C22/not-idempotent/{}", S::NAME), format!("{}: {:?}", S::NAME, a));
            return;
        }
    }
    if let Err(e) = reps[0].check(&ops) {
        res.trace.log("model", format!("model mismatch: {e}"));
        res.violate(own, "C22", &format!("C22/lww-semantics/{}", S::NAME), format!("{}: {e}", S::NAME));
    }
    res.hit(&format!("probe.crdt.{}", S::NAME));
    if ops.iter().any(|a| ops.iter().any(|b| a.key == b.key && a.clock == b.clock && a.insert != b.insert)) {
        res.hit("probe.crdt.equal_clock_insert_remove");
    }
    res.steps = steps as u64;
    res.nontrivial = ops.len() >= 2;
    res.summary = format!("{} x{n}, {} updates, faults={faults}", S::NAME, ops.len());
    res.state(crate::kit::hash_str(&format!("{:?}", reps[0])));
}

pub fn run(ch: &mut Chooser, cfg: &RunCfg) -> RunResult {
    let own = cfg.property.clone();
    let mut res = RunResult::new();
    match ch.pick(9) {
        0 => world::<LWWSet<u8, u8>>(ch, &own, &mut res),
        1 => world::<LWWMap<u8, Max<u8>, u8>>(ch, &own, &mut res),
        2 => world::<LWWReg<Max<u8>, u8>>(ch, &own, &mut res),
        3 => world::<GSet<u8>>(ch, &own, &mut res),
        4 => world::<GMap<u8, Max<u8>>>(ch, &own, &mut res),
        5 => world::<Max<u8>>(ch, &own, &mut res),
        6 => world::<Min<u8>>(ch, &own, &mut res),
        7 => world::<Option<Redactable<u8>>>(ch, &own, &mut res),
        _ => world::<bool>(ch, &own, &mut res),
    }
    res
}

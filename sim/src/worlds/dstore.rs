//! D-store (C24): the node's persistent stores (routing, sync status, refs cache, seeding and
//! follow policies, gossip) against in-memory map models, operation by operation, with
//! timestamps from a tiny set (equal, older, newer, 0, max) and restarts (close + reopen of
//! the database files; everything completed before the restart must still be there).

use std::collections::{BTreeMap, BTreeSet};

use radicle::git::Oid;
use radicle::identity::RepoId;
use radicle::node::address::Store as _;
use radicle::node::policy::store::{Store as PolicyStore, Write};
use radicle::node::policy::{Policy, Scope, SeedingPolicy};
use radicle::node::refs::Store as _;
use radicle::node::routing::{InsertResult, Store as _};
use radicle::node::seed::Store as _;
use radicle::node::{address, Alias, Database, Features, KnownAddress, NodeId, Timestamp, UserAgent};
use radicle_node::service::filter::Filter;
use radicle_node::service::gossip::Store as _;
use radicle_node::service::message::Announcement;
use radicle_node::LocalTime;
use std::str::FromStr;

use crate::gen;
use crate::kit::json::catch;
use crate::kit::{Chooser, RunCfg, RunResult};
use crate::worlds::node_ann_id;

const TS: [u64; 6] = [1_000, 1_000, 999, 1_001, 2_000, 5_000];

struct Model {
    routing: BTreeMap<(usize, usize), u64>,          // (repo, node) -> timestamp
    sync: BTreeMap<(usize, usize), (u64, u64)>,      // (repo, node) -> (head, timestamp)
    refs: BTreeMap<(usize, usize, usize), (u64, u64)>, // (repo, ns, ref) -> (oid, ts)
    seeding: BTreeMap<usize, (Scope, Policy)>,
    following: BTreeMap<usize, (String, Policy)>,
    gossip: BTreeMap<(usize, u8, usize), (u64, u64)>, // (node, kind, repo or 0) -> (ts, ann id)
}

struct Stores {
    db: Database,
    pol: PolicyStore<Write>,
}

fn open(scratch: &std::path::Path, file: bool, nodes: &[NodeId], first: bool) -> Stores {
    let db = if file { Database::open(scratch.join("node.db")).expect("open node db") } else { Database::memory().expect("memory db") };
    let mut db = db;
    if first {
        for (i, n) in nodes.iter().enumerate() {
            db.insert(n, 1, Features::SEED, &Alias::from_str(&format!("n{i}")).unwrap(), 0, &UserAgent::default(), Timestamp::try_from(1u64).unwrap(), Some(KnownAddress::new(gen::addr_of(i as u64), address::Source::Imported))).expect("node insert");
        }
    }
    let pol = if file { PolicyStore::<Write>::open(scratch.join("policies.db")).expect("open policies") } else { PolicyStore::<Write>::memory().expect("memory policies") };
    Stores { db, pol }
}

fn refname(i: usize) -> radicle::git::Qualified<'static> {
    let s = ["refs/heads/master", "refs/rad/sigrefs", "refs/heads/dev"][i];
    radicle::git::Qualified::from_refstr(radicle::git::RefString::try_from(s).unwrap()).unwrap().to_owned()
}

pub fn run(ch: &mut Chooser, cfg: &RunCfg) -> RunResult {
    let own = cfg.property.as_str();
    let mut res = RunResult::new();
    let seed = ch.seed;
    let file = ch.pick(8) == 0; // file-backed (with restarts) in 1/8 of the runs
    let nodes: Vec<NodeId> = (0..4).map(|k| *gen::key(seed, k).public_key()).collect();
    let signers: Vec<_> = (0..4).map(|k| gen::key(seed, k)).collect();
    let local = 0usize;
    let repos: Vec<RepoId> = (0..3).map(gen::rid_of).collect();
    let mut st = open(&cfg.scratch, file, &nodes, true);
    let mut m = Model { routing: BTreeMap::new(), sync: BTreeMap::new(), refs: BTreeMap::new(), seeding: BTreeMap::new(), following: BTreeMap::new(), gossip: BTreeMap::new() };
    let steps = 10 + ch.pick_usize(70);
    res.trace.log("setup", format!("stores file_backed={file} steps={steps}"));
    let ts_of = |ch: &mut Chooser| -> u64 {
        match ch.pick(16) {
            15 => 0,
            14 => i64::MAX as u64,
            _ => *ch.choose(&TS),
        }
    };
    macro_rules! bad {
        ($class:expr, $($arg:tt)*) => {{
            let d = format!($($arg)*);
            res.trace.log("mismatch", format!("MISMATCH {}: {}", $class, d));
            res.violate(own, "C24", $class, d);
            break;
        }};
    }
    for _ in 0..steps {
        ch.mark();
        let r = ch.pick_usize(repos.len());
        let n = ch.pick_usize(nodes.len());
        let op = ch.weighted(&[6, 2, 2, 5, 4, 2, 4, 2, 5, if file { 2 } else { 0 }]);
        match op {
            0 => {
                let ts = ts_of(ch);
                let out = st.db.add_inventory([&repos[r]], nodes[n], Timestamp::try_from(ts).unwrap_or(Timestamp::MAX)).expect("add_inventory");
                let want = match m.routing.get(&(r, n)) {
                    None => InsertResult::SeedAdded,
                    Some(old) if *old < ts => InsertResult::TimeUpdated,
                    Some(_) => InsertResult::NotUpdated,
                };
                if want != InsertResult::NotUpdated {
                    m.routing.insert((r, n), ts);
                }
                res.trace.log("routing-add", format!("routing.add_inventory(r{r}, n{n}, t={ts}) -> {:?}", out[0].1));
                if out[0].1 != want {
                    bad!("C24/routing/add-result", "add_inventory(r{r}, n{n}, t={ts}) returned {:?}, model {:?}", out[0].1, want);
                }
            }
            1 => {
                let out = st.db.remove_inventory(&repos[r], &nodes[n]).expect("remove_inventory");
                let want = m.routing.remove(&(r, n)).is_some();
                res.trace.log("routing-remove", format!("routing.remove_inventory(r{r}, n{n}) -> {out}"));
                if out != want {
                    bad!("C24/routing/remove-result", "remove_inventory(r{r}, n{n}) returned {out}, model {want}");
                }
            }
            2 => {
                // prune: never the local node's entries, oldest first, up to the limit
                let oldest = ts_of(ch);
                let limit = if ch.pick(2) == 0 { None } else { Some(ch.pick_usize(4)) };
                let before = m.routing.clone();
                let removed_n = radicle::node::routing::Store::prune(&mut st.db, Timestamp::try_from(oldest).unwrap_or(Timestamp::MAX), limit, &nodes[local]).expect("prune");
                let mut after: BTreeMap<(usize, usize), u64> = BTreeMap::new();
                for ri in 0..repos.len() {
                    for ni in 0..nodes.len() {
                        if let Some(t) = st.db.entry(&repos[ri], &nodes[ni]).expect("entry") {
                            after.insert((ri, ni), *t);
                        }
                    }
                }
                res.trace.log("routing-prune", format!("routing.prune(oldest={oldest}, limit={limit:?}) removed {removed_n}"));
                let removed: Vec<(&(usize, usize), &u64)> = before.iter().filter(|(k, _)| !after.contains_key(k)).collect();
                if removed.iter().any(|(k, _)| k.1 == local) {
                    bad!("C24/routing/prune-removed-local", "prune removed an entry of the local node");
                }
                if removed.iter().any(|(_, t)| **t >= oldest) {
                    bad!("C24/routing/prune-removed-too-new", "prune(oldest={oldest}) removed an entry that is not older");
                }
                let eligible_all = before.values().filter(|t| **t < oldest).count();
                let eligible_local = before.iter().filter(|(k, t)| k.1 == local && **t < oldest).count();
                let lim = limit.unwrap_or(usize::MAX);
                let max_rm = lim.min(eligible_all - eligible_local);
                let min_rm = lim.min(eligible_all).saturating_sub(eligible_local);
                if removed.len() > max_rm || removed.len() < min_rm || removed.len() != removed_n {
                    bad!("C24/routing/prune-count", "prune(oldest={oldest}, limit={limit:?}) removed {} entries (reported {removed_n}); model allows {min_rm}..={max_rm}", removed.len());
                }
                // oldest first: nothing non-local that stayed is strictly older than something removed
                let newest_removed = removed.iter().map(|(_, t)| **t).max();
                if let Some(nr) = newest_removed {
                    if after.iter().any(|(k, t)| k.1 != local && *t < nr && before.contains_key(k)) {
                        bad!("C24/routing/prune-order", "prune kept an older non-local entry while removing a newer one");
                    }
                }
                if after.iter().any(|(k, t)| before.get(k) != Some(t)) {
                    bad!("C24/routing/prune-changed-entry", "prune changed or created an entry");
                }
                m.routing = after;
            }
            3 => {
                let ts = ts_of(ch);
                let head = ch.pick(3) as u64;
                let out = st.db.synced(&repos[r], &nodes[n], gen::oid_of(head), Timestamp::try_from(ts).unwrap_or(Timestamp::MAX)).expect("synced");
                let want = match m.sync.get(&(r, n)) {
                    None => true,
                    Some((h, t)) => *t < ts && *h != head,
                };
                if want {
                    m.sync.insert((r, n), (head, ts));
                }
                res.trace.log("sync", format!("seeds.synced(r{r}, n{n}, head={head}, t={ts}) -> {out}"));
                if out != want {
                    bad!("C24/sync-status/result", "synced(r{r}, n{n}, head={head}, t={ts}) returned {out}, model {want} (stored {:?})", m.sync.get(&(r, n)));
                }
            }
            4 => {
                let ts = ts_of(ch).min(i64::MAX as u64 / 2);
                let oid = ch.pick(3) as u64;
                let rf = ch.pick_usize(3);
                let out = st.db.set(&repos[r], &nodes[n], &refname(rf), gen::oid_of(oid), LocalTime::from_millis(ts as u128)).expect("refs.set");
                let want = match m.refs.get(&(r, n, rf)) {
                    None => true,
                    Some((o, t)) => *t < ts && *o != oid,
                };
                if want {
                    m.refs.insert((r, n, rf), (oid, ts));
                }
                res.trace.log("refs-set", format!("refs.set(r{r}, n{n}, ref{rf}, oid={oid}, t={ts}) -> {out}"));
                if out != want {
                    bad!("C24/refs/set-result", "refs.set(r{r}, n{n}, ref{rf}, oid={oid}, t={ts}) returned {out}, model {want} (stored {:?})", m.refs.get(&(r, n, rf)));
                }
            }
            5 => {
                let rf = ch.pick_usize(3);
                let out = st.db.delete(&repos[r], &nodes[n], &refname(rf)).expect("refs.delete");
                let want = m.refs.remove(&(r, n, rf)).is_some();
                res.trace.log("refs-delete", format!("refs.delete(r{r}, n{n}, ref{rf}) -> {out}"));
                if out != want {
                    bad!("C24/refs/delete-result", "refs.delete returned {out}, model {want}");
                }
            }
            6 => {
                // seeding policy: field-wise last write wins (scope by seed(), policy by set_seed_policy())
                match ch.pick(3) {
                    0 => {
                        let scope = if ch.pick(2) == 0 { Scope::All } else { Scope::Followed };
                        let out = st.pol.seed(&repos[r], scope).expect("seed");
                        let want = match m.seeding.get(&r) {
                            None => true,
                            Some((s, _)) => *s != scope,
                        };
                        let pol = m.seeding.get(&r).map(|x| x.1).unwrap_or(Policy::Allow);
                        m.seeding.insert(r, (scope, pol));
                        res.trace.log("seed", format!("policies.seed(r{r}, {scope}) -> {out}"));
                        if out != want {
                            bad!("C24/policy/seed-result", "seed(r{r}, {scope}) returned {out}, model {want}");
                        }
                    }
                    1 => {
                        let p = if ch.pick(2) == 0 { Policy::Block } else { Policy::Allow };
                        let out = st.pol.set_seed_policy(&repos[r], p).expect("set_seed_policy");
                        let want = match m.seeding.get(&r) {
                            None => true,
                            Some((_, q)) => *q != p,
                        };
                        let scope = m.seeding.get(&r).map(|x| x.0).unwrap_or(Scope::Followed);
                        m.seeding.insert(r, (scope, p));
                        res.trace.log("seed-policy", format!("policies.set_seed_policy(r{r}, {p}) -> {out}"));
                        if out != want {
                            bad!("C24/policy/set-seed-policy-result", "set_seed_policy(r{r}, {p}) returned {out}, model {want}");
                        }
                    }
                    _ => {
                        let out = st.pol.unseed(&repos[r]).expect("unseed");
                        let want = m.seeding.remove(&r).is_some();
                        res.trace.log("unseed", format!("policies.unseed(r{r}) -> {out}"));
                        if out != want {
                            bad!("C24/policy/unseed-result", "unseed(r{r}) returned {out}, model {want}");
                        }
                    }
                }
            }
            7 => match ch.pick(3) {
                0 => {
                    let alias = *ch.choose(&["", "alice", "bob"]);
                    let a = if alias.is_empty() { None } else { Some(Alias::from_str(alias).unwrap()) };
                    let out = st.pol.follow(&nodes[n], a.as_ref()).expect("follow");
                    let want = match m.following.get(&n) {
                        None => true,
                        Some((old, _)) => old != alias,
                    };
                    let pol = m.following.get(&n).map(|x| x.1).unwrap_or(Policy::Allow);
                    m.following.insert(n, (alias.to_string(), pol));
                    res.trace.log("follow", format!("policies.follow(n{n}, {alias:?}) -> {out}"));
                    if out != want {
                        bad!("C24/policy/follow-result", "follow(n{n}, {alias:?}) returned {out}, model {want}");
                    }
                }
                1 => {
                    let p = if ch.pick(2) == 0 { Policy::Block } else { Policy::Allow };
                    let out = st.pol.set_follow_policy(&nodes[n], p).expect("set_follow_policy");
                    let want = match m.following.get(&n) {
                        None => true,
                        Some((_, q)) => *q != p,
                    };
                    let alias = m.following.get(&n).map(|x| x.0.clone()).unwrap_or_default();
                    m.following.insert(n, (alias, p));
                    res.trace.log("follow-policy", format!("policies.set_follow_policy(n{n}, {p}) -> {out}"));
                    if out != want {
                        bad!("C24/policy/set-follow-policy-result", "set_follow_policy(n{n}, {p}) returned {out}, model {want}");
                    }
                }
                _ => {
                    let out = st.pol.unfollow(&nodes[n]).expect("unfollow");
                    let want = m.following.remove(&n).is_some();
                    res.trace.log("unfollow", format!("policies.unfollow(n{n}) -> {out}"));
                    if out != want {
                        bad!("C24/policy/unfollow-result", "unfollow(n{n}) returned {out}, model {want}");
                    }
                }
            },
            8 => {
                // gossip store: replaced only by a strictly newer announcement of the same kind (and repo)
                let kind = ch.pick(3) as u8;
                let ts = match ts_of(ch) {
                    0 => 1, // zero is rejected by the service before it reaches the store
                    t => t,
                };
                let tsv = Timestamp::try_from(ts).unwrap_or(Timestamp::MAX);
                let variant = ch.pick(2) as u64; // same timestamp, different content
                let ann: Announcement = match kind {
                    0 => gen::signed(gen::node_announcement(tsv, if variant == 0 { "a" } else { "b" }, vec![], Features::SEED, None), &signers[n]),
                    1 => gen::signed(gen::inventory(tsv, vec![repos[variant as usize]]), &signers[n]),
                    _ => gen::signed(gen::refs(tsv, repos[r], vec![radicle::storage::refs::RefsAt { remote: nodes[n], at: gen::oid_of(variant) }]), &signers[n]),
                };
                let key = (n, kind, if kind == 2 { r + 1 } else { 0 });
                let id = node_ann_id(&ann);
                let out = match catch(|| st.db.announced(&nodes[n], &ann)) {
                    Ok(o) => o.expect("announced"),
                    Err(p) => bad!("C24/gossip/panic", "gossip.announced panicked: {}", p.message),
                };
                let want = match m.gossip.get(&key) {
                    None => true,
                    Some((t, _)) => *t < ts,
                };
                if want {
                    m.gossip.insert(key, (ts, id));
                }
                res.trace.log("gossip", format!("gossip.announced(n{n}, kind={kind}, r{r}, t={ts}, v{variant}) -> {}", out.is_some()));
                if out.is_some() != want {
                    bad!("C24/gossip/announced-result", "announced(n{n}, kind {kind}, t={ts}) returned {:?}, model {want} (stored {:?})", out, m.gossip.get(&key));
                }
            }
            _ => {
                // restart: close and reopen the database files
                drop(st);
                st = open(&cfg.scratch, file, &nodes, false);
                res.hit("fault.store.restart");
                res.trace.log("restart", "databases closed and reopened".to_string());
            }
        }
        // full-content comparison after every operation
        for ri in 0..repos.len() {
            for ni in 0..nodes.len() {
                let have = st.db.entry(&repos[ri], &nodes[ni]).expect("entry").map(|t| *t);
                if have != m.routing.get(&(ri, ni)).copied() {
                    bad!("C24/routing/content", "routing entry (r{ri}, n{ni}) is {have:?}, model {:?}", m.routing.get(&(ri, ni)));
                }
                for rf in 0..3 {
                    let have = radicle::node::refs::Store::get(&st.db, &repos[ri], &nodes[ni], &refname(rf)).expect("refs.get").map(|(o, t)| (o, t.as_millis()));
                    let want = m.refs.get(&(ri, ni, rf)).map(|(o, t)| (gen::oid_of(*o), *t));
                    if have != want {
                        bad!("C24/refs/content", "refs (r{ri}, n{ni}, ref{rf}) is {have:?}, model {want:?}");
                    }
                }
            }
            let have: BTreeMap<NodeId, (Oid, u64)> = st.db.seeds_for(&repos[ri]).expect("seeds_for").filter_map(|s| s.ok()).map(|s| (s.nid, (s.synced_at.oid, s.synced_at.timestamp.as_millis()))).collect();
            let want: BTreeMap<NodeId, (Oid, u64)> = m.sync.iter().filter(|(k, _)| k.0 == ri).map(|(k, (h, t))| (nodes[k.1], (gen::oid_of(*h), *t))).collect();
            if have != want {
                bad!("C24/sync-status/content", "sync status of r{ri}: store has {} entries, model {}: {have:?} vs {want:?}", have.len(), want.len());
            }
            let have = st.pol.seed_policy(&repos[ri]).expect("seed_policy").map(|p| p.policy);
            let want = m.seeding.get(&ri).map(|(s, p)| if *p == Policy::Allow { SeedingPolicy::Allow { scope: *s } } else { SeedingPolicy::Block });
            if have != want {
                bad!("C24/policy/seed-content", "seed policy of r{ri} is {have:?}, model {want:?}");
            }
        }
        for ni in 0..nodes.len() {
            let have = st.pol.follow_policy(&nodes[ni]).expect("follow_policy").map(|p| (p.alias.map(|a| a.to_string()).unwrap_or_default(), p.policy));
            let want = m.following.get(&ni).cloned();
            if have != want {
                bad!("C24/policy/follow-content", "follow policy of n{ni} is {have:?}, model {want:?}");
            }
        }
        let filter = Filter::default();
        let stored: Vec<Announcement> = st.db.filtered(&filter, Timestamp::MIN, Timestamp::MAX).expect("filtered").filter_map(|a| a.ok()).collect();
        let have: BTreeSet<u64> = stored.iter().map(node_ann_id).collect();
        let want: BTreeSet<u64> = m.gossip.values().filter(|(t, _)| *t < i64::MAX as u64).map(|(_, id)| *id).collect();
        if have != want {
            bad!("C24/gossip/content", "gossip store holds {} announcements, model {}", have.len(), want.len());
        }
    }
    let total = m.routing.len() + m.sync.len() + m.refs.len() + m.gossip.len();
    res.hit_n("probe.store.rows_checked", total as u64);
    res.steps = steps as u64;
    res.nontrivial = total >= 3;
    res.summary = format!("{steps} operations, file_backed={file}, {total} rows at the end");
    res.state(crate::kit::hash_str(&format!("{:?}{:?}", m.routing, m.sync)));
    let _ = local;
    res
}

//! D-sync (C25): the real `Announcer` / `Fetcher` driven by simulated seeds that answer in
//! any order, late, never, from unknown nodes or as the local node; the driver gives up
//! (`timed_out` / `finish`) at a chosen point. Model: sets of nodes and the target predicate.

use std::collections::BTreeSet;
use std::ops::ControlFlow;

use radicle::node::sync::{Announcer, AnnouncerConfig, AnnouncerResult, Fetcher, FetcherConfig, FetcherResult, ReplicationFactor};
use radicle::node::sync::fetch::Candidate;
use radicle::node::{FetchResult, NodeId};

use crate::gen;
use crate::kit::{Chooser, RunCfg, RunResult};

fn factor(ch: &mut Chooser) -> ReplicationFactor {
    match ch.pick(3) {
        0 => ReplicationFactor::must_reach(1 + ch.pick_usize(4)),
        1 => {
            let lo = ch.pick_usize(3);
            ReplicationFactor::range(lo, lo + 1 + ch.pick_usize(3))
        }
        _ => ReplicationFactor::must_reach(ch.pick_usize(2)),
    }
}

fn bound(r: &ReplicationFactor) -> usize {
    r.upper_bound().unwrap_or(r.lower_bound())
}

fn subset(ch: &mut Chooser, pool: &[NodeId], p_num: u32) -> BTreeSet<NodeId> {
    pool.iter().filter(|_| ch.pick(4) < p_num).copied().collect()
}

fn announcer(ch: &mut Chooser, own: &str, res: &mut RunResult) {
    let seed = ch.seed;
    let local = *gen::key(seed, 0).public_key();
    let pool: Vec<NodeId> = (1..9).map(|k| *gen::key(seed, k).public_key()).collect();
    let unknown: Vec<NodeId> = (20..23).map(|k| *gen::key(seed, k).public_key()).collect();
    let name = |n: &NodeId| -> String {
        if *n == local { "local".into() } else if let Some(i) = pool.iter().position(|x| x == n) { format!("s{i}") } else { "unknown".into() }
    };
    let mut preferred = subset(ch, &pool, 1);
    let mut synced = subset(ch, &pool, 1);
    let mut unsynced: BTreeSet<NodeId> = pool.iter().filter(|n| !synced.contains(n)).filter(|_| ch.pick(4) != 0).copied().collect();
    // the local node sneaks into the configured sets
    if ch.pick(3) == 0 {
        preferred.insert(local);
        res.hit("probe.sync.local_in_config");
    }
    if ch.pick(3) == 0 {
        unsynced.insert(local);
    }
    if ch.pick(4) == 0 {
        synced.insert(local);
    }
    let replicas = factor(ch);
    res.trace.log("setup", format!("announcer replicas={replicas:?} preferred={} synced={} unsynced={}", preferred.len(), synced.len(), unsynced.len()));
    let cfg = AnnouncerConfig::public(local, replicas, preferred, synced.clone(), unsynced);
    let mut ann = match Announcer::new(cfg) {
        Ok(a) => a,
        Err(e) => {
            res.hit("probe.sync.announcer_not_constructed");
            res.trace.log("no-announcer", format!("Announcer::new: {e:?}"));
            return;
        }
    };
    let target = ann.target().clone();
    let pref: BTreeSet<NodeId> = target.preferred_seeds().clone();
    let need = bound(target.replicas());
    // model
    let mut s: BTreeSet<NodeId> = synced.iter().filter(|n| **n != local).copied().collect();
    let reached = |s: &BTreeSet<NodeId>| (pref.is_empty() || pref.iter().all(|p| s.contains(p))) && s.len() >= need;
    if pref.contains(&local) {
        res.violate(own, "C25", "C25/announcer/local-node-in-target", "the local node is among the announcer's preferred seeds".into());
    }
    let steps = 1 + ch.pick_usize(14);
    let mut succeeded_before = false;
    for _ in 0..steps {
        ch.mark();
        if ann.to_sync().contains(&local) {
            res.violate(own, "C25", "C25/announcer/local-node-handed-out", "to_sync() contains the local node".into());
        }
        let to_sync: Vec<NodeId> = ann.to_sync().into_iter().collect();
        // 0 => an expected node answers
        let node = match ch.weighted(&[8, 1, 1, 2]) {
            0 if !to_sync.is_empty() => to_sync[ch.pick_usize(to_sync.len())],
            1 => {
                res.hit("fault.sync.result_from_local_node");
                local
            }
            2 => {
                res.hit("fault.sync.result_from_unknown_node");
                unknown[ch.pick_usize(unknown.len())]
            }
            _ => {
                res.hit("fault.sync.duplicate_result");
                pool[ch.pick_usize(pool.len())]
            }
        };
        let r = ann.synced_with(node, std::time::Duration::from_millis(ch.pick(1000) as u64));
        if node != local {
            s.insert(node);
        }
        let want = reached(&s);
        res.trace.log(if r.is_break() { "sync-break" } else { "sync-continue" }, format!("synced_with({}) -> {} (model: {} synced, target {})", name(&node), if r.is_break() { "Success" } else { "Continue" }, s.len(), if want { "reached" } else { "not reached" }));
        if succeeded_before || (node == local && r.is_continue()) {
            // success was already reported (the caller stops there), or the local node's result was ignored as it must be
            continue;
        }
        if r.is_break() {
            succeeded_before = true;
        }
        match (&r, want) {
            (ControlFlow::Break(_), false) => {
                res.violate(own, "C25", "C25/announcer/success-before-target", format!("synced_with({}) reported success with {} synced node(s), preferred {:?} of {}, needed {need}", name(&node), s.len(), pref.iter().filter(|p| s.contains(p)).count(), pref.len()));
                return;
            }
            (ControlFlow::Continue(_), true) => {
                res.violate(own, "C25", "C25/announcer/no-success-at-target", format!("synced_with({}) did not report success although the target is met ({} synced, needed {need}, all {} preferred synced)", name(&node), s.len(), pref.len()));
                return;
            }
            _ => {}
        }
        if let ControlFlow::Break(succ) = &r {
            res.hit("probe.sync.announcer_success");
            if succ.synced().contains_key(&local) {
                res.violate(own, "C25", "C25/announcer/local-node-counted", "the success result lists the local node as synced".into());
            }
        }
    }
    let want = reached(&s);
    match ann.timed_out() {
        AnnouncerResult::Success(_) if !want => res.violate(own, "C25", "C25/announcer/timed-out-reports-success", format!("timed_out() reported success, model: {} synced, needed {need}", s.len())),
        AnnouncerResult::TimedOut(_) | AnnouncerResult::NoNodes(_) if want => res.violate(own, "C25", "C25/announcer/timed-out-misses-success", "timed_out() reported a timeout although the target is met".into()),
        AnnouncerResult::TimedOut(t) => {
            res.hit("probe.sync.announcer_timed_out");
            if t.timed_out().contains(&local) {
                res.violate(own, "C25", "C25/announcer/local-node-handed-out", "timed_out set contains the local node".into());
            }
        }
        _ => {}
    }
    res.steps = steps as u64;
    res.nontrivial = steps >= 2;
    res.summary = format!("announcer, {steps} results, need {need}, {} preferred", pref.len());
}

fn fetcher(ch: &mut Chooser, own: &str, res: &mut RunResult) {
    let seed = ch.seed;
    let local = *gen::key(seed, 0).public_key();
    let pool: Vec<NodeId> = (1..9).map(|k| *gen::key(seed, k).public_key()).collect();
    let unknown: Vec<NodeId> = (20..23).map(|k| *gen::key(seed, k).public_key()).collect();
    let name = |n: &NodeId| -> String {
        if *n == local { "local".into() } else if let Some(i) = pool.iter().position(|x| x == n) { format!("s{i}") } else { "unknown".into() }
    };
    let mut seeds = subset(ch, &pool, 1);
    let local_in_seeds = ch.pick(3) == 0;
    if local_in_seeds {
        seeds.insert(local);
        res.hit("probe.sync.local_in_config");
    }
    let mut extra: Vec<NodeId> = pool.iter().filter(|_| ch.pick(2) == 0).copied().collect();
    if ch.pick(3) == 0 {
        extra.push(local);
    }
    if ch.pick(3) == 0 && !extra.is_empty() {
        let d = extra[0];
        extra.push(d); // duplicate candidate
    }
    let replicas = factor(ch);
    res.trace.log("setup", format!("fetcher replicas={replicas:?} seeds={} extra-candidates={} local-in-seeds={local_in_seeds}", seeds.len(), extra.len()));
    let cfg = FetcherConfig::public(seeds, replicas, local).with_candidates(extra.into_iter().map(Candidate::new));
    let mut f = match Fetcher::new(cfg) {
        Ok(f) => f,
        Err(e) => {
            res.hit("probe.sync.fetcher_not_constructed");
            res.trace.log("no-fetcher", format!("Fetcher::new: {e}"));
            return;
        }
    };
    let target = f.target().clone();
    let pref: BTreeSet<NodeId> = target.preferred_seeds().clone();
    let need = bound(target.replicas());
    let mut ok: BTreeSet<NodeId> = BTreeSet::new(); // nodes (never the local one) that succeeded
    let mut has_result: BTreeSet<NodeId> = BTreeSet::new();
    let reached = |ok: &BTreeSet<NodeId>| (!pref.is_empty() && pref.iter().all(|p| ok.contains(p))) || ok.len() >= need;
    let mut handed: Vec<NodeId> = Vec::new(); // nodes handed out by next_node, not yet readied
    let mut fetching: Vec<NodeId> = Vec::new(); // nodes handed out by next_fetch, no result yet
    let addr = gen::addr_of(7);
    let steps = 2 + ch.pick_usize(24);
    let mut fetch_succeeded_before = false;
    for _ in 0..steps {
        ch.mark();
        match ch.weighted(&[5, 4, 4, 5, 1, 1]) {
            0 => {
                if let Some(n) = f.next_node() {
                    res.trace.log("next-node", format!("next_node() -> {}", name(&n)));
                    if n == local {
                        res.violate(own, "C25", "C25/fetcher/local-node-handed-out", "next_node() returned the local node".into());
                        return;
                    }
                    if has_result.contains(&n) {
                        res.violate(own, "C25", "C25/fetcher/node-with-result-handed-out", format!("next_node() returned {} which already has a result", name(&n)));
                        return;
                    }
                    handed.push(n);
                }
            }
            1 => {
                if !handed.is_empty() {
                    let n = handed.remove(ch.pick_usize(handed.len()));
                    f.ready_to_fetch(n, addr.clone());
                    res.trace.log("ready", format!("ready_to_fetch({})", name(&n)));
                }
            }
            2 => {
                if let Some((n, _)) = f.next_fetch() {
                    res.trace.log("next-fetch", format!("next_fetch() -> {}", name(&n)));
                    if n == local {
                        res.violate(own, "C25", "C25/fetcher/local-node-handed-out", "next_fetch() returned the local node".into());
                        return;
                    }
                    if has_result.contains(&n) {
                        res.violate(own, "C25", "C25/fetcher/node-with-result-handed-out", format!("next_fetch() returned {} which already has a result", name(&n)));
                        return;
                    }
                    fetching.push(n);
                }
            }
            3 | 4 | 5 => {
                // a result arrives: 3 => for a fetch in progress, 4 => as the local node, 5 => from an unknown node
                let which = ch.weighted(&[8, 1, 1]);
                let node = match which {
                    0 => {
                        if fetching.is_empty() {
                            continue;
                        }
                        fetching.remove(ch.pick_usize(fetching.len()))
                    }
                    1 => {
                        res.hit("fault.sync.result_from_local_node");
                        local
                    }
                    _ => {
                        res.hit("fault.sync.result_from_unknown_node");
                        let u = unknown[ch.pick_usize(unknown.len())];
                        if has_result.contains(&u) {
                            continue;
                        }
                        u
                    }
                };
                if node == local && has_result.contains(&local) {
                    continue;
                }
                let success = ch.pick(3) != 2;
                // a node handed out twice (duplicate candidate) reports twice: its first result is the one that counts
                let first = has_result.insert(node);
                if !first {
                    res.hit("probe.sync.second_result_of_same_node");
                }
                if !success {
                    if ch.pick(2) == 0 {
                        f.fetch_failed(node, "could not connect");
                        res.trace.log("failed", format!("fetch_failed({})", name(&node)));
                        continue;
                    }
                } else if node != local && first {
                    ok.insert(node);
                }
                let result = if success {
                    FetchResult::Success { updated: vec![], namespaces: Default::default(), clone: false }
                } else {
                    FetchResult::Failed { reason: "sim".into() }
                };
                let r = f.fetch_complete(node, result);
                let want = reached(&ok);
                res.trace.log(if r.is_break() { "fetch-break" } else { "fetch-continue" }, format!("fetch_complete({}, {}) -> {} (model: {} succeeded, target {})", name(&node), if success { "ok" } else { "failed" }, if r.is_break() { "Success" } else { "Continue" }, ok.len(), if want { "reached" } else { "not reached" }));
                if fetch_succeeded_before || (node == local && r.is_continue()) {
                    continue;
                }
                if r.is_break() {
                    fetch_succeeded_before = true;
                }
                match (&r, want) {
                    (ControlFlow::Break(_), false) => {
                        let class = if node == local || has_result.contains(&local) { "C25/fetcher/local-node-counted" } else { "C25/fetcher/success-before-target" };
                        res.violate(own, "C25", class, format!("fetch_complete({}) reported success with {} distinct non-local successful node(s), needed {need}; preferred {} of {}", name(&node), ok.len(), pref.iter().filter(|p| ok.contains(p)).count(), pref.len()));
                        return;
                    }
                    (ControlFlow::Continue(_), true) => {
                        res.violate(own, "C25", "C25/fetcher/no-success-at-target", format!("fetch_complete({}) did not report success although the target is met ({} succeeded, needed {need})", name(&node), ok.len()));
                        return;
                    }
                    _ => {}
                }
                if r.is_break() {
                    res.hit("probe.sync.fetcher_success");
                }
            }
            _ => {}
        }
    }
    let want = reached(&ok);
    match f.finish() {
        FetcherResult::TargetReached(_) if !want => {
            let class = if has_result.contains(&local) { "C25/fetcher/local-node-counted" } else { "C25/fetcher/finish-reports-success" };
            res.violate(own, "C25", class, format!("finish() reported the target reached, model: {} succeeded, needed {need}", ok.len()))
        }
        FetcherResult::TargetError(_) if want => res.violate(own, "C25", "C25/fetcher/finish-misses-success", "finish() reported a missed target although it is met".into()),
        FetcherResult::TargetError(_) => res.hit("probe.sync.fetcher_target_missed"),
        _ => {}
    }
    res.steps = steps as u64;
    res.nontrivial = has_result.len() >= 2;
    res.summary = format!("fetcher, {steps} steps, need {need}, {} preferred", pref.len());
}

pub fn run(ch: &mut Chooser, cfg: &RunCfg) -> RunResult {
    let own = cfg.property.clone();
    let mut res = RunResult::new();
    if ch.pick(2) == 0 {
        announcer(ch, &own, &mut res)
    } else {
        fetcher(ch, &own, &mut res)
    }
    res.state(res.trace.seq_hash);
    res
}

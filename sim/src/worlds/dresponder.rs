//! D-responder (C12, and the request-header half of C13): the responder half of the worker
//! (`worker::respond`, hook H2: request header parsing, `is_authorized`, `upload_pack` with the
//! real `git upload-pack` child) behind simulated channel ends. The scheduler picks seeding
//! policy, visibility, allow list, requester, the encoding of the request header and the chunking
//! of its bytes; a byzantine requester also sends malformed packet lines.
//!
//! Oracle: a requester that is not allowed to see the repository (ground truth computed from the
//! harness' own records) gets an error and not a single byte; an allowed requester with a
//! well-formed version-2 request gets the capability advertisement; no request panics.

use std::io;
use std::sync::{Arc, Condvar, Mutex};
use std::time::Duration;

use radicle::crypto::test::signer::MockSigner;
use radicle::git::Oid;
use radicle::identity::doc::{Doc, Visibility};
use radicle::identity::project::Project;
use radicle::identity::{Did, RepoId};
use radicle::node::device::Device;
use radicle::node::events::Emitter;
use radicle::node::policy::{Policy, Scope, SeedingPolicy};
use radicle::node::Alias;
use radicle::storage::git::Repository;
use radicle::storage::{SignRepository, WriteRepository};
use radicle::Storage;
use radicle_node::service::policy;
use radicle_node::worker::FetchResult;
use std::str::FromStr;

use crate::gen;
use crate::kit::json::{catch, normalise};
use crate::kit::{Chooser, RunCfg, RunResult};

/// What the two channel ends share: bytes written by the responder, and a way for the reader to
/// wait until the responder has written something (so that "was the advertisement served" does
/// not depend on a race between our end-of-stream and the child's first write).
struct Shared {
    written: Vec<u8>,
    /// the reader gives up waiting
    closed: bool,
}

struct SimReader {
    data: Vec<u8>,
    pos: usize,
    chunks: Vec<usize>,
    next_chunk: usize,
    shared: Arc<(Mutex<Shared>, Condvar)>,
    /// before reporting end-of-stream, wait for the writer's first byte
    wait_for_answer: bool,
    /// how the stream ends: 0 = EOF (Ok(0)), 1 = UnexpectedEof error, 2 = TimedOut then EOF, 3 = ConnectionReset
    ending: u32,
    ended: u32,
}

impl io::Read for SimReader {
    fn read(&mut self, buf: &mut [u8]) -> io::Result<usize> {
        if self.pos < self.data.len() {
            let want = self.chunks.get(self.next_chunk).copied().unwrap_or(usize::MAX).max(1);
            self.next_chunk += 1;
            let n = want.min(buf.len()).min(self.data.len() - self.pos);
            buf[..n].copy_from_slice(&self.data[self.pos..self.pos + n]);
            self.pos += n;
            return Ok(n);
        }
        if self.wait_for_answer {
            self.wait_for_answer = false;
            let (m, cv) = &*self.shared;
            let g = m.lock().unwrap();
            let _ = cv.wait_timeout_while(g, Duration::from_secs(10), |s| s.written.is_empty() && !s.closed).unwrap();
        }
        self.ended += 1;
        match self.ending {
            0 => Ok(0),
            1 => Err(io::ErrorKind::UnexpectedEof.into()),
            2 if self.ended == 1 => Err(io::ErrorKind::TimedOut.into()),
            2 => Ok(0),
            _ => Err(io::ErrorKind::ConnectionReset.into()),
        }
    }
}

struct SimWriter {
    shared: Arc<(Mutex<Shared>, Condvar)>,
}

impl io::Write for SimWriter {
    fn write(&mut self, buf: &[u8]) -> io::Result<usize> {
        let (m, cv) = &*self.shared;
        let mut g = m.lock().unwrap();
        g.written.extend_from_slice(buf);
        cv.notify_all();
        Ok(buf.len())
    }
    fn flush(&mut self) -> io::Result<()> {
        Ok(())
    }
}

struct Repo {
    rid: RepoId,
    name: &'static str,
    public: bool,
    allow: Vec<Did>,
    delegates: Vec<Did>,
}

fn pkt(payload: &[u8]) -> Vec<u8> {
    let mut v = format!("{:04x}", payload.len() + 4).into_bytes();
    v.extend_from_slice(payload);
    v
}

pub fn run(ch: &mut Chooser, cfg: &RunCfg) -> RunResult {
    let seed = ch.seed;
    let own = if cfg.property.starts_with("C13") { "C13".to_string() } else if cfg.property.starts_with("ALL") { "*".to_string() } else { cfg.property.clone() };
    let mut res = RunResult::new();
    let dir = cfg.scratch.clone();
    std::env::set_var("GIT_COMMITTER_DATE", "1700000000");
    std::env::set_var("RAD_COMMIT_TIME", "1700000000");
    std::env::set_var("RAD_LOCAL_TIME", "1700000000");
    let keys: Vec<Device<MockSigner>> = (0..4).map(|k| gen::key(seed, k)).collect();
    let names = ["local", "delegate", "listed", "stranger"];
    let local = *keys[0].public_key();
    let storage = Storage::open(dir.join("storage"), radicle::git::UserInfo { alias: Alias::from_str("local").unwrap(), key: local }).expect("storage");
    let did = |k: usize| Did::from(*keys[k].public_key());

    // ---- repositories: public, private without allow list, private allowing `listed`
    let local_is_delegate = ch.pick(2) == 1;
    let mut repos: Vec<Repo> = Vec::new();
    for (i, (name, vis, allow)) in [("public", Visibility::Public, vec![]), ("private", Visibility::private([]), vec![]), ("private-allowing-listed", Visibility::private([did(2)]), vec![did(2)])].into_iter().enumerate() {
        let project = Project::new(format!("repo{i}").try_into().unwrap(), name.to_string(), radicle::git::RefString::try_from("master").unwrap()).expect("project");
        let mut delegates = vec![did(1)];
        if local_is_delegate {
            delegates.push(did(0));
        }
        let public = vis.is_public();
        let ds = delegates.clone();
        let doc = Doc::initial(project, did(1), vis)
            .with_edits(|raw| {
                raw.delegates = ds.clone();
                raw.threshold = 1;
            })
            .expect("doc");
        let (repo, identity) = Repository::init(&doc, &storage, &keys[1]).expect("Repository::init");
        repo.set_remote_identity_root_to(keys[1].public_key(), identity).expect("identity root");
        repo.set_identity_head_to(identity).expect("identity head");
        let raw = &repo.backend;
        let blob = raw.blob(format!("content {i}\n").as_bytes()).unwrap();
        let mut tb = raw.treebuilder(None).unwrap();
        tb.insert("f", blob, 0o100_644).unwrap();
        let tree = raw.find_tree(tb.write().unwrap()).unwrap();
        let sig = git2::Signature::new("sim", "sim@sim", &git2::Time::new(1_600_000_000, 0)).unwrap();
        let c: Oid = raw.commit(None, &sig, &sig, "c0", &tree, &[]).unwrap().into();
        raw.reference(&format!("refs/namespaces/{}/refs/heads/master", keys[1].public_key()), *c, true, "sim").unwrap();
        repo.sign_refs(&keys[1]).expect("sign_refs");
        let _ = repo.set_head();
        repos.push(Repo { rid: repo.id, name, public, allow, delegates });
    }
    let unknown = gen::rid_of(seed ^ 77);

    // ---- seeding policies
    let default_allow = ch.pick(3) == 2;
    let default = if default_allow { SeedingPolicy::Allow { scope: Scope::All } } else { SeedingPolicy::Block };
    let mut store = policy::Store::<policy::store::Write>::open(dir.join("policies.db")).expect("policies");
    // per repository: 0 = explicit allow (all), 1 = no entry (default applies), 2 = explicit block, 3 = allow (followed)
    let mut entry: Vec<u32> = Vec::new();
    for r in &repos {
        let e = ch.weighted(&[4, 2, 2, 1]) as u32;
        match e {
            0 => {
                store.seed(&r.rid, Scope::All).expect("seed");
            }
            2 => {
                store.set_seed_policy(&r.rid, Policy::Block).expect("block");
            }
            3 => {
                store.seed(&r.rid, Scope::Followed).expect("seed");
            }
            _ => {}
        }
        entry.push(e);
    }
    let unknown_seeded = ch.pick(3) == 2;
    if unknown_seeded {
        store.seed(&unknown, Scope::All).expect("seed");
    }
    let policies = policy::Config::new(default, store.read_only());
    res.trace.log("setup", format!("default={} local_is_delegate={local_is_delegate} entries={entry:?} unknown_seeded={unknown_seeded}", if default_allow { "allow" } else { "block" }));
    res.summary = format!("default {}, entries {entry:?}", if default_allow { "allow" } else { "block" });

    let emitter: Emitter<radicle::node::Event> = Emitter::default();
    let n = 4 + ch.pick_usize(8);
    for step in 0..n {
        ch.mark();
        // target repository: 0..2 stored, 3 unknown
        let t = ch.weighted(&[3, 3, 3, 1]);
        let (rid, stored) = if t < 3 { (repos[t].rid, Some(&repos[t])) } else { (unknown, None) };
        let who = 1 + ch.pick_usize(3) - if ch.pick(8) == 7 { 1 } else { 0 }; // mostly delegate / listed / stranger, rarely the local node
        let remote = *keys[who].public_key();
        // ground truth
        let policy_allows = match stored {
            Some(_) => match entry[t] {
                0 | 3 => true,
                2 => false,
                _ => default_allow,
            },
            None => unknown_seeded || default_allow,
        };
        let visible = match stored {
            Some(r) => r.public || r.delegates.contains(&did(who)) || r.allow.contains(&did(who)),
            None => false,
        };
        let allowed = policy_allows && visible;
        // request header
        let rid_s = rid.to_string();
        let urn = rid.urn();
        let variant = ch.weighted(&[6, 3, 2, 2, 2, 2, 2, 3]);
        let (vname, payload, well_formed_v2): (&str, Vec<u8>, bool) = match variant {
            0 => ("canonical", format!("git-upload-pack /{rid_s}\0host=seed.example\0\0version=2\0").into_bytes(), true),
            1 => ("no-host", format!("git-upload-pack /{rid_s}\0\0version=2\0").into_bytes(), true),
            2 => ("host-and-port", format!("git-upload-pack /{rid_s}\0host=seed.example:8776\0\0version=2\0").into_bytes(), true),
            3 => ("extra-parameters", format!("git-upload-pack /{rid_s}\0host=seed.example\0\0version=2\0object-format=sha1\0").into_bytes(), true),
            4 => ("version-1", format!("git-upload-pack /{rid_s}\0host=seed.example\0\0version=1\0").into_bytes(), false),
            5 => ("no-version", format!("git-upload-pack /{rid_s}\0host=seed.example\0").into_bytes(), false),
            6 => ("bare-id", format!("git-upload-pack /{urn}\0host=seed.example\0\0version=2\0").into_bytes(), false),
            _ => {
                // malformed: other command, bad id, bad port, not utf-8, empty
                let k = ch.pick(6);
                let p: Vec<u8> = match k {
                    0 => format!("git-receive-pack /{rid_s}\0host=x\0\0version=2\0").into_bytes(),
                    1 => format!("git-upload-pack /{}x\0\0version=2\0", &rid_s[..rid_s.len() - 1]).into_bytes(),
                    2 => format!("git-upload-pack /{rid_s}\0host=x:99999\0\0version=2\0").into_bytes(),
                    3 => {
                        let mut v = format!("git-upload-pack /{rid_s}").into_bytes();
                        v.extend_from_slice(&[0xff, 0xfe, 0]);
                        v
                    }
                    4 => Vec::new(),
                    _ => format!("git-upload-pack {rid_s}\0\0version=2\0").into_bytes(),
                };
                ("malformed-request", p, false)
            }
        };
        // the packet line around it: honest length, or a byzantine one
        let framing = if ch.pick(6) == 5 { 1 + ch.pick(6) } else { 0 };
        let mut data: Vec<u8> = match framing {
            0 => pkt(&payload),
            1 => b"0000".to_vec(),
            2 => b"0002".to_vec(),
            3 => {
                let mut v = b"ffff".to_vec();
                v.extend_from_slice(&payload);
                v
            }
            4 => {
                let mut v = b"zz1g".to_vec();
                v.extend_from_slice(&payload);
                v
            }
            5 => {
                // declared longer than what follows
                let mut v = format!("{:04x}", payload.len() + 40).into_bytes();
                v.extend_from_slice(&payload);
                v
            }
            _ => {
                // longer than the responder's buffer
                let mut long = payload.clone();
                long.resize(1500, b'a');
                pkt(&long)
            }
        };
        let fname = ["honest-length", "flush-packet", "length-below-header", "length-ffff", "non-hex-length", "length-beyond-data", "longer-than-buffer"][framing as usize];
        let honest_frame = framing == 0;
        // an honest client then waits for the advertisement; others just stop
        if honest_frame && ch.pick(4) == 3 {
            data.extend_from_slice(b"0000");
        }
        let nchunks = ch.pick_usize(4);
        let chunks: Vec<usize> = (0..nchunks).map(|_| 1 + ch.pick_usize(40)).collect();
        let ending = ch.weighted(&[5, 2, 1, 1]) as u32;
        let shared = Arc::new((Mutex::new(Shared { written: Vec::new(), closed: false }), Condvar::new()));
        let reader = SimReader { data, pos: 0, chunks, next_chunk: 0, shared: shared.clone(), wait_for_answer: honest_frame && (well_formed_v2 || variant == 6), ending, ended: 0 };
        let writer = SimWriter { shared: shared.clone() };
        res.hit(&format!("fault.request.{vname}"));
        if !honest_frame {
            res.hit(&format!("fault.framing.{fname}"));
        }
        if ending != 0 {
            res.hit(&format!("fault.stream.ending-{ending}"));
        }
        let out = catch(|| radicle_node::worker::verif::respond(&local, &storage, &policies, remote, &emitter, reader, writer, Duration::from_secs(5)));
        {
            let (m, cv) = &*shared;
            m.lock().unwrap().closed = true;
            cv.notify_all();
        }
        let written = shared.0.lock().unwrap().written.clone();
        let tname = stored.map(|r| r.name).unwrap_or("unknown");
        let desc = format!("#{step} {} asks for {tname} ({vname}, {fname}): policy_allows={policy_allows} visible={visible}", names[who]);
        match out {
            Err(p) => {
                res.trace.log("panic", format!("{desc} -> PANIC {}", p.message));
                res.violate(&own, "C13", &format!("C13/panic/responder/{}", p.class()), format!("{desc}: the responder panicked: {}", p.message));
                break;
            }
            Ok(FetchResult::Responder { rid: got, result }) => {
                let ok = result.is_ok();
                let e = result.as_ref().err().map(|e| normalise(&e.to_string())).unwrap_or_default();
                // once the child process runs, its exit status and late stream errors depend on real
                // timing: for served requests only "served" is recorded
                if written.is_empty() {
                    res.trace.log(&format!("respond-{}-silent", if ok { "ok" } else { "err" }), format!("{desc} -> {} rid={} bytes=0", if ok { "ok".to_string() } else { format!("error ({e})") }, got.map(|_| "parsed").unwrap_or("none")));
                } else {
                    res.trace.log("respond-served", format!("{desc} -> served rid={} bytes>0", got.map(|_| "parsed").unwrap_or("none")));
                }
                if !allowed {
                    res.hit("probe.c12.refusal_expected");
                    if stored.map(|r| !r.public).unwrap_or(false) && policy_allows {
                        res.hit("probe.c12.private_repository_refused_to_outsider");
                    }
                    if !written.is_empty() {
                        res.violate(&own, "C12", &format!("C12/data-served-to-unauthorised/{}", if !policy_allows { "not-seeded" } else { "not-visible" }), format!("{desc}: {} byte(s) were sent although the requester may not see the repository", written.len()));
                    } else if ok && honest_frame && variant < 4 {
                        res.violate(&own, "C12", "C12/request-not-refused", format!("{desc}: the request was reported successful although the requester may not see the repository"));
                    }
                } else if well_formed_v2 && honest_frame {
                    res.hit("probe.c12.service_expected");
                    if written.is_empty() {
                        res.violate(&own, "C12", "C12/allowed-request-not-served", format!("{desc}: an allowed, well-formed request got no data ({e})"));
                    } else if !written.starts_with(b"000eversion 2") {
                        res.violate(&own, "C12", "C12/allowed-request-served-garbage", format!("{desc}: the answer does not start with the version 2 advertisement"));
                    } else {
                        res.hit("probe.c12.advertisement_served");
                    }
                } else {
                    res.hit("probe.c12.allowed_but_malformed");
                }
            }
            Ok(other) => {
                res.hit("harness.unexpected_result");
                res.trace.log("unexpected", format!("{desc} -> unexpected result {other:?}"));
            }
        }
    }
    res.steps = res.trace.count;
    res.nontrivial = res.counters.get("probe.c12.refusal_expected").copied().unwrap_or(0) >= 1;
    res
}

//! D-agent (C27, stream half): `AgentClient<SimAgent>` where the simulated SSH agent behind
//! the `ClientStream` seam answers honestly, fails, truncates, lies about lengths or sends
//! garbage.

use std::path::Path;
use std::sync::{Arc, Mutex};

use radicle::crypto::PublicKey;
use radicle_ssh::agent::client::{AgentClient, ClientStream, Error};
use radicle_ssh::encoding::{Buffer, Encodable, Encoding, Reader};

use crate::gen;
use crate::kit::json::catch;
use crate::kit::{Chooser, RunCfg, RunResult};

const FAILURE: u8 = 5;
const SUCCESS: u8 = 6;
const IDENTITIES_ANSWER: u8 = 12;
const SIGN_RESPONSE: u8 = 14;
const REQUEST_IDENTITIES: u8 = 11;
const SIGN_REQUEST: u8 = 13;

/// What the agent does with the next request (decided by the scheduler before the call).
#[derive(Clone, Debug)]
enum Behaviour {
    Honest,
    Failure,
    Empty,
    Truncate(usize),
    /// identities answer whose count exceeds its content
    CountLie(u32),
    /// a string length larger than the buffer
    LengthLie,
    /// signature blob of this length
    SigLen(usize),
    Garbage(Vec<u8>),
    IoError,
    /// identities answer in which keys of another type (ssh-rsa) precede some of the ed25519 keys (bit mask)
    MixedKinds(u32),
    /// identities answer whose blobs are secret keys in wire encoding; the key-pair string of entry 0 cut to n bytes
    SecretBlobs(Vec<[u8; 64]>, Option<usize>),
}

struct Shared {
    next: Behaviour,
    keys: Vec<radicle::node::device::Device<radicle::crypto::test::signer::MockSigner>>,
    requests: u64,
}

#[derive(Clone)]
struct SimAgent(Arc<Mutex<Shared>>);

impl SimAgent {
    fn honest(sh: &Shared, req: &[u8]) -> Vec<u8> {
        // request = u32 length, type byte, payload
        if req.len() < 5 {
            return vec![FAILURE];
        }
        match req[4] {
            REQUEST_IDENTITIES => {
                let mut out: Vec<u8> = vec![IDENTITIES_ANSWER];
                out.extend_u32(sh.keys.len() as u32);
                for k in &sh.keys {
                    k.public_key().write(&mut out);
                    out.extend_ssh_string(b"comment");
                }
                out
            }
            SIGN_REQUEST => {
                // decode the request with the crate's own reader: string key blob, string data, u32 flags
                let mut r = req.reader(5);
                let Ok(blob) = r.read_string() else { return vec![FAILURE] };
                let Ok(data) = r.read_string() else { return vec![FAILURE] };
                // the blob is [string algorithm][string key], which is what PublicKey::read decodes
                let mut kr = blob.reader(0);
                let Ok(pk) = PublicKey::read(&mut kr) else { return vec![FAILURE] };
                let Some(k) = sh.keys.iter().find(|k| *k.public_key() == pk) else { return vec![FAILURE] };
                let sig: radicle::crypto::Signature = radicle::crypto::signature::Signer::<radicle::crypto::Signature>::sign(k, data);
                let mut out: Vec<u8> = vec![SIGN_RESPONSE];
                sig.write(&mut out);
                out
            }
            _ => vec![SUCCESS],
        }
    }
}

impl ClientStream for SimAgent {
    fn request(&mut self, req: &[u8]) -> Result<Buffer, Error> {
        let mut sh = self.0.lock().unwrap();
        sh.requests += 1;
        let honest = Self::honest(&sh, req);
        let is_sign = req.len() >= 5 && req[4] == SIGN_REQUEST;
        let resp: Vec<u8> = match std::mem::replace(&mut sh.next, Behaviour::Honest) {
            Behaviour::Honest => honest,
            Behaviour::Failure => vec![FAILURE],
            Behaviour::Empty => vec![],
            Behaviour::Truncate(n) => honest[..n.min(honest.len())].to_vec(),
            Behaviour::CountLie(n) => {
                let mut out = honest.clone();
                if out.len() >= 5 {
                    out[1..5].copy_from_slice(&n.to_be_bytes());
                }
                out
            }
            Behaviour::LengthLie => {
                let mut out = honest.clone();
                if out.len() >= 5 {
                    let at = if is_sign { 1 } else { 5.min(out.len() - 4) };
                    out[at..at + 4].copy_from_slice(&0xffff_fff0u32.to_be_bytes());
                }
                out
            }
            Behaviour::SigLen(n) => {
                let mut inner: Vec<u8> = Vec::new();
                inner.extend_ssh_string(b"ssh-ed25519");
                inner.extend_ssh_string(&vec![7u8; n]);
                let mut out: Vec<u8> = vec![SIGN_RESPONSE];
                out.extend_ssh_string(&inner);
                out
            }
            Behaviour::Garbage(b) => b,
            Behaviour::MixedKinds(mask) => {
                let mut body: Vec<u8> = Vec::new();
                let mut n = 0u32;
                for (i, k) in sh.keys.iter().enumerate() {
                    if mask & (1 << i) != 0 {
                        let mut rsa: Vec<u8> = Vec::new();
                        rsa.extend_ssh_string(b"ssh-rsa");
                        rsa.extend_ssh_string(&[1, 0, 1]);
                        rsa.extend_ssh_string(&[0x00, 0xc3, 0x51, 0x7a, 0x11, 0x42, 0x99, 0x08, 0x5d]);
                        body.extend_ssh_string(&rsa);
                        body.extend_ssh_string(b"an rsa key");
                        n += 1;
                    }
                    // `write` emits the key blob as one string
                    k.public_key().write(&mut body);
                    body.extend_ssh_string(b"comment");
                    n += 1;
                }
                let mut out: Vec<u8> = vec![IDENTITIES_ANSWER];
                out.extend_u32(n);
                out.extend_from_slice(&body);
                out
            }
            Behaviour::SecretBlobs(sks, cut) => {
                let mut out: Vec<u8> = vec![IDENTITIES_ANSWER];
                out.extend_u32(sks.len() as u32);
                for (i, raw) in sks.iter().enumerate() {
                    let sk = radicle::crypto::SecretKey::from(*raw);
                    let mut blob: Vec<u8> = Vec::new();
                    match (i, cut) {
                        (0, Some(n)) => {
                            blob.extend_ssh_string(b"ssh-ed25519");
                            blob.extend_ssh_string(&raw[32..]);
                            blob.extend_ssh_string(&raw[..n.min(64)]);
                            blob.extend_ssh_string(b"radicle");
                        }
                        _ => sk.write(&mut blob),
                    }
                    out.extend_ssh_string(&blob);
                    out.extend_ssh_string(b"comment");
                }
                out
            }
            Behaviour::IoError => return Err(Error::Io(std::io::Error::from(std::io::ErrorKind::UnexpectedEof))),
        };
        Ok(Buffer::from(resp))
    }

    fn connect<P>(_path: P) -> Result<AgentClient<Self>, Error>
    where
        P: AsRef<Path> + Send,
    {
        Err(Error::AgentFailure)
    }
}

pub fn run(ch: &mut Chooser, cfg: &RunCfg) -> RunResult {
    let own = cfg.property.as_str();
    let mut res = RunResult::new();
    let seed = ch.seed;
    let nkeys = ch.pick_usize(4);
    let keys: Vec<_> = (0..nkeys as u64).map(|k| gen::key(seed, k)).collect();
    let stranger = gen::key(seed, 99);
    let shared = Arc::new(Mutex::new(Shared { next: Behaviour::Honest, keys: keys.clone(), requests: 0 }));
    let mut client = AgentClient::connect(SimAgent(shared.clone()));
    let faults = ch.pick(4) != 0;
    let steps = 1 + ch.pick_usize(10);
    res.trace.log("setup", format!("agent keys={nkeys} steps={steps} faults={faults}"));
    for _ in 0..steps {
        ch.mark();
        // 0 => honest
        let b = if !faults {
            Behaviour::Honest
        } else {
            match ch.weighted(&[6, 1, 2, 2, 2, 2, 3, 2, 1]) {
                0 => Behaviour::Honest,
                1 => Behaviour::Failure,
                2 => Behaviour::Empty,
                3 => Behaviour::Truncate(ch.pick_usize(40)),
                4 => Behaviour::CountLie(*ch.choose(&[1u32, 2, 5, 1000, u32::MAX])),
                5 => Behaviour::LengthLie,
                6 => Behaviour::SigLen(*ch.choose(&[0usize, 1, 63, 65, 64, 128])),
                7 => {
                    let n = ch.pick_usize(24);
                    let mut g = ch.bytes(n);
                    if !g.is_empty() && ch.pick(2) == 0 {
                        g[0] = *ch.choose(&[IDENTITIES_ANSWER, SIGN_RESPONSE, SUCCESS]);
                    }
                    Behaviour::Garbage(g)
                }
                _ => Behaviour::IoError,
            }
        };
        let honest = matches!(b, Behaviour::Honest);
        if !honest {
            res.hit(&format!("fault.agent.{}", format!("{b:?}").split(['(', ' ']).next().unwrap_or("x").to_lowercase()));
        }
        shared.lock().unwrap().next = b.clone();
        let call = ch.weighted(&[4, 5, 1, 1, 2]);
        match call {
            4 => {
                // secret keys in wire encoding (as read back by the key-adding path), through the same parser
                let n = 1 + ch.pick_usize(3);
                let sks: Vec<[u8; 64]> = (0..n).map(|_| <[u8; 64]>::try_from(ch.bytes(64).as_slice()).unwrap()).collect();
                let cut = if faults && ch.pick(2) == 0 { Some(*ch.choose(&[0usize, 1, 31, 32, 33, 63])) } else { None };
                shared.lock().unwrap().next = Behaviour::SecretBlobs(sks.clone(), cut);
                if cut.is_some() {
                    res.hit("fault.agent.secret_key_pair_cut");
                }
                let r = catch(|| client.request_identities::<radicle::crypto::SecretKey>());
                match r {
                    Err(p) => {
                        res.trace.log("panic", format!("request_identities::<SecretKey> panicked (key pair cut to {cut:?}): {}", p.message));
                        res.violate(own, "C27", &format!("C27/panic/request_identities_secret/{}", p.class()), format!("reading a secret key whose key-pair string is cut to {cut:?} bytes panicked: {}", p.message));
                        break;
                    }
                    Ok(Ok(ks)) => {
                        res.trace.log("secret-identities", format!("request_identities::<SecretKey> (cut {cut:?}) -> {} key(s)", ks.len()));
                        let want: Vec<radicle::crypto::SecretKey> = sks.iter().enumerate().filter(|(i, _)| !(*i == 0 && cut.is_some())).map(|(_, raw)| radicle::crypto::SecretKey::from(*raw)).collect();
                        res.hit("probe.agent.secret_keys_read_back");
                        if ks != want {
                            res.violate(own, "C27", "C27/roundtrip/secret-keys-differ", format!("{} secret key(s) written in wire encoding, {} read back equal", want.len(), ks.len()));
                        }
                    }
                    Ok(Err(e)) => {
                        res.trace.log("secret-identities-err", format!("request_identities::<SecretKey> (cut {cut:?}) -> error {e}"));
                        if cut.is_none() {
                            res.violate(own, "C27", "C27/roundtrip/secret-keys-error", format!("valid secret keys, client error: {e}"));
                        }
                    }
                }
            }
            0 => {
                // sometimes the (otherwise honest) agent also holds keys of a type the client does not support
                let mixed = honest && !keys.is_empty() && ch.pick(3) == 0;
                if mixed {
                    let mask = 1 + ch.pick((1u32 << keys.len()) - 1);
                    shared.lock().unwrap().next = Behaviour::MixedKinds(mask);
                    res.hit("fault.agent.unsupported_key_types_listed");
                }
                let r = catch(|| client.request_identities::<PublicKey>());
                match r {
                    Err(p) => {
                        res.trace.log("panic", format!("request_identities panicked with agent behaviour {b:?}: {}", p.message));
                        res.violate(own, "C27", &format!("C27/panic/request_identities/{}", p.class()), format!("request_identities panicked on agent answer {b:?}: {}", p.message));
                        break;
                    }
                    Ok(Ok(ks)) => {
                        res.trace.log("identities", format!("request_identities ({b:?}) -> {} key(s)", ks.len()));
                        if honest {
                            res.hit("probe.agent.honest_identities");
                            let want: Vec<PublicKey> = keys.iter().map(|k| *k.public_key()).collect();
                            if ks != want {
                                res.violate(own, "C27", "C27/roundtrip/identities-differ", format!("honest agent listed {} keys, client decoded {}", want.len(), ks.len()));
                            }
                        }
                    }
                    Ok(Err(e)) => {
                        res.trace.log("identities-err", format!("request_identities ({b:?}) -> error {e}"));
                        if honest {
                            res.violate(own, "C27", "C27/roundtrip/identities-error", format!("honest agent, client error: {e}"));
                        }
                    }
                }
            }
            1 => {
                let k = if !keys.is_empty() && ch.pick(4) != 0 { keys[ch.pick_usize(keys.len())].clone() } else { stranger.clone() };
                let known = keys.iter().any(|x| x.public_key() == k.public_key());
                let n = ch.pick_usize(40);
                let data = ch.bytes(n);
                let pk = *k.public_key();
                let r = catch(|| client.sign(&pk, &data));
                match r {
                    Err(p) => {
                        res.trace.log("panic", format!("sign panicked with agent behaviour {b:?}: {}", p.message));
                        res.violate(own, "C27", &format!("C27/panic/sign/{}", p.class()), format!("sign panicked on agent answer {b:?}: {}", p.message));
                        break;
                    }
                    Ok(Ok(sig)) => {
                        res.trace.log("sign", format!("sign ({b:?}) -> signature"));
                        if honest {
                            res.hit("probe.agent.honest_signature");
                            let s = radicle::crypto::Signature::from(sig);
                            if pk.verify(&data, &s).is_err() {
                                res.violate(own, "C27", "C27/roundtrip/signature-differs", "the signature returned through the agent does not verify".into());
                            }
                        }
                    }
                    Ok(Err(e)) => {
                        res.trace.log("sign-err", format!("sign ({b:?}) -> error {e}"));
                        if honest && known {
                            res.violate(own, "C27", "C27/roundtrip/sign-error", format!("honest agent holding the key, client error: {e}"));
                        }
                    }
                }
            }
            2 => {
                let r = catch(|| client.query_extension(b"ext@sim", Buffer::default()));
                if let Err(p) = r {
                    res.violate(own, "C27", &format!("C27/panic/query_extension/{}", p.class()), format!("query_extension panicked on agent answer {b:?}: {}", p.message));
                    break;
                }
                res.trace.log("ext", format!("query_extension ({b:?})"));
            }
            _ => {
                let r = catch(|| client.remove_all_identities());
                if let Err(p) = r {
                    res.violate(own, "C27", &format!("C27/panic/remove_all/{}", p.class()), format!("remove_all_identities panicked: {}", p.message));
                    break;
                }
                res.trace.log("remove-all", format!("remove_all_identities ({b:?})"));
            }
        }
    }
    res.steps = steps as u64;
    res.nontrivial = steps >= 2;
    res.summary = format!("{nkeys} key(s), {steps} call(s), faults={faults}");
    res.state(res.trace.seq_hash);
    res
}

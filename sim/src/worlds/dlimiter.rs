//! D-limiter (C17): the real `RateLimiter` under a simulated clock with stalls, jumps and
//! (in one configuration) backward steps; several hosts, bypassed nodes.

use std::collections::BTreeMap;

use radicle::node::config::RateLimit;
use radicle::node::HostName;
use radicle_node::service::limiter::RateLimiter;
use radicle_node::LocalTime;

use crate::gen;
use crate::kit::json::catch;
use crate::kit::{fnv, Chooser, RunCfg, RunResult, FNV0};

struct Req {
    t: u64,
    admitted: bool,
}

pub fn run(ch: &mut Chooser, cfg: &RunCfg) -> RunResult {
    let own = cfg.property.as_str();
    let mut res = RunResult::new();
    let seed = ch.seed;
    let capacity = *ch.choose(&[1usize, 0, 2, 3, 8]);
    let rate = *ch.choose(&[1.0f64, 0.0, 0.1, 0.2, 0.5, 1.5, 3.0]);
    let limit = RateLimit { fill_rate: rate, capacity };
    // clock configuration: 0 => monotone (as Service::tick guarantees), 1 => raw clock with backward steps
    let raw_clock = ch.pick(4) == 3;
    let faults = ch.pick(4) != 0;
    let bypass_key = gen::key(seed, 1);
    let other_key = gen::key(seed, 2);
    let mut limiter = RateLimiter::new([*bypass_key.public_key()]);
    let hosts: Vec<(HostName, bool, &str)> = vec![
        (HostName::Ip([8, 8, 8, 8].into()), true, "routable-a"),
        (HostName::Ip([1, 2, 3, 4].into()), true, "routable-b"),
        (HostName::Ip([192, 168, 1, 7].into()), false, "lan"),
        (HostName::Ip([127, 0, 0, 1].into()), false, "loopback"),
        (HostName::Dns("seed.example.com".to_string()), true, "dns"),
    ];
    let n = 10 + ch.pick_usize(190);
    res.trace.log("setup", format!("capacity={capacity} rate={rate} raw_clock={raw_clock} faults={faults} requests={n}"));
    let mut now: u64 = 1_700_000_000_000;
    let mut svc_clock = now; // what a Service would pass: never decreasing
    let mut hist: BTreeMap<usize, Vec<Req>> = BTreeMap::new();
    let mut h = FNV0;
    for _ in 0..n {
        ch.mark();
        // time step; 0 => +1 s
        let step: i64 = if faults {
            *ch.choose(&[1000i64, 0, 1, 500, 999, 1001, 5000, 60_000, 3_600_000, -1, -1000, -5000])
        } else {
            *ch.choose(&[1000i64, 0, 1, 500, 999, 1001, 5000])
        };
        if step < 0 {
            res.hit("fault.clock.backward_step");
        } else if step == 0 {
            res.hit("fault.clock.stall");
        } else if step >= 60_000 {
            res.hit("fault.clock.forward_jump");
        }
        now = (now as i64 + step).max(1) as u64;
        if now > svc_clock {
            svc_clock = now;
        }
        let t = if raw_clock { now } else { svc_clock };
        let hi = ch.weighted(&[6, 2, 1, 1, 2]);
        let (host, limited, hname) = hosts[hi].clone();
        let who = ch.weighted(&[5, 2, 2]);
        let nid = match who {
            0 => None,
            1 => Some(*bypass_key.public_key()),
            _ => Some(*other_key.public_key()),
        };
        let bypassed = who == 1;
        let r = catch(|| limiter.limit(host.clone(), nid.as_ref(), &limit, LocalTime::from_millis(t as u128)));
        let refused = match r {
            Ok(b) => b,
            Err(p) => {
                if raw_clock {
                    // RateLimiter::limit is not total on a clock that runs backwards; the statement
                    // bounds admissions, and the Service never passes a decreasing time: recorded, not a violation.
                    res.hit("probe.limiter.panic_on_raw_backward_clock");
                    res.trace.log("panic-raw", format!("t={} limit() panicked on a backward clock step: {}", t, p.message));
                    break;
                }
                res.violate(own, "C17", &format!("C17/panic/{}", p.class()), format!("RateLimiter::limit panicked with a monotone clock: {}", p.message));
                break;
            }
        };
        res.trace.log(if refused { "refused" } else { "admitted" }, format!("t={} host={hname} nid={} -> {}", t as i64 - 1_700_000_000_000, match who { 0 => "none", 1 => "bypassed", _ => "other" }, if refused { "refused" } else { "admitted" }));
        h = fnv(h, &[hi as u8, refused as u8]);
        if bypassed || !limited {
            res.hit("probe.limiter.exempt_request");
            if refused {
                res.violate(own, "C17", if bypassed { "C17/bypassed-node-limited" } else { "C17/non-routable-limited" }, format!("request from {} host {hname} was refused", if bypassed { "bypassed node on" } else { "non-routable" }));
            }
            continue;
        }
        if refused {
            res.hit("probe.limiter.refused");
        }
        hist.entry(hi).or_default().push(Req { t, admitted: !refused });
    }
    // window oracle: for every pair i <= j of requests of the same limited host
    for (hi, reqs) in &hist {
        let m = reqs.len();
        'outer: for i in 0..m {
            let mut admitted = 0u64;
            let mut forward_ms = 0u64;
            for j in i..m {
                if j > i && reqs[j].t > reqs[j - 1].t {
                    forward_ms += reqs[j].t - reqs[j - 1].t;
                }
                if reqs[j].admitted {
                    admitted += 1;
                }
                let secs = (forward_ms + 999) / 1000;
                let bound = capacity as f64 + rate * secs as f64;
                if admitted as f64 > bound + 1e-9 {
                    res.trace.log("over-admission", format!("host#{hi}: requests {i}..={j}: admitted {admitted} > capacity {capacity} + {rate} x {secs}s"));
                    res.violate(own, "C17", "C17/over-admission", format!("host {}: {admitted} requests admitted in a window of {forward_ms} ms (forward clock movement), bound is capacity {capacity} + rate {rate} x {secs} s = {bound}", hosts[*hi].2));
                    break 'outer;
                }
            }
        }
    }
    res.state(h);
    res.steps = n as u64;
    res.nontrivial = hist.values().any(|r| r.iter().any(|q| q.admitted) && r.iter().any(|q| !q.admitted));
    res.summary = format!("{n} requests, capacity {capacity}, rate {rate}, raw_clock={raw_clock}");
    res
}

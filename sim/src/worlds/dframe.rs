//! D-frame: a byte pipe into the real `Deserializer<MAX_INBOX_SIZE, Frame>`.
//!
//! The "network" is the sequence of chunks in which the bytes arrive (the scheduler
//! chooses every split), the faults are what a byzantine peer can do to a frame
//! (lying length prefixes in every varint width, truncated / garbage / over-long inner
//! messages, wrong version, unknown stream kind, connection cut mid-frame).
//! Oracles: C14 (i) chunking independence, (ii) allocation bound, (iii) complete-but-invalid
//! frame is an error; C13: no panic / abort.

use radicle_node::deserializer::Deserializer;
use radicle_node::service::Message;
use radicle_node::wire;
use radicle_node::wire::verif::{Frame, MAX_INBOX_SIZE};

use crate::gen;
use crate::kit::json::catch;
use crate::kit::{alloc, fnv, Chooser, RunCfg, RunResult, FNV0};

const SLACK: usize = 64 * 1024;

pub fn varint(v: u64, width: u8, out: &mut Vec<u8>) {
    match width {
        1 => out.push(v as u8 & 0x3f),
        2 => out.extend_from_slice(&(((0b01u16) << 14) | (v as u16 & 0x3fff)).to_be_bytes()),
        4 => out.extend_from_slice(&(((0b10u32) << 30) | (v as u32 & 0x3fff_ffff)).to_be_bytes()),
        _ => out.extend_from_slice(&(((0b11u64) << 62) | (v & 0x3fff_ffff_ffff_ffff)).to_be_bytes()),
    }
}

pub fn min_width(v: u64) -> u8 {
    if v < 1 << 6 {
        1
    } else if v < 1 << 14 {
        2
    } else if v < 1 << 30 {
        4
    } else {
        8
    }
}

fn pick_width(ch: &mut Chooser, v: u64) -> u8 {
    let min = min_width(v);
    let opts: Vec<u8> = [1u8, 2, 4, 8].into_iter().filter(|w| *w >= min).collect();
    // 0 => minimal
    *ch.choose(&opts)
}

#[derive(Clone, Debug)]
enum Body {
    Gossip(Vec<u8>),
    Git(Vec<u8>),
    Control(u8, u64),
}

#[derive(Clone, Debug)]
struct Spec {
    stream: u64,
    body: Body,
    /// what the peer did to it
    fault: &'static str,
    /// number of bytes of the encoding that are actually sent (== len unless cut)
    sent: usize,
    /// encoded bytes (with chosen widths)
    bytes: Vec<u8>,
    /// canonical re-encoding expected from the decoder, if the frame is valid
    canonical: Option<Vec<u8>>,
    /// complete according to its own length prefix and all its bytes sent
    complete: bool,
}

fn encode(stream: u64, body: &Body, wid_stream: u8, wid_len: u8, declared_len: Option<u64>, version: [u8; 4]) -> Vec<u8> {
    let mut out = Vec::new();
    out.extend_from_slice(&version);
    varint(stream, wid_stream, &mut out);
    match body {
        Body::Gossip(p) | Body::Git(p) => {
            let l = declared_len.unwrap_or(p.len() as u64);
            varint(l, wid_len.max(min_width(l)), &mut out);
            out.extend_from_slice(p);
        }
        Body::Control(cmd, s) => {
            out.push(*cmd);
            varint(*s, wid_len.max(min_width(*s)), &mut out);
        }
    }
    out
}

const VERSION: [u8; 4] = [b'r', b'a', b'd', 1];

fn gen_frame(ch: &mut Chooser, seed: u64, allow_fault: bool) -> Spec {
    let link = ch.pick(2) as u64;
    let nth = *ch.choose(&[0u64, 0, 1, 7, 1 << 20, (1 << 58) - 1]);
    let kind = ch.weighted(&[5, 3, 2]);
    let (stream, body) = match kind {
        0 => {
            let m = gen::message(ch, seed);
            ((0b01 << 1) | link | (nth << 3), Body::Gossip(wire::serialize(&m)))
        }
        1 => {
            let len = *ch.choose(&[0usize, 1, 5, 63, 64, 300, 16383, 16384, 65535, 65536, 100_000]);
            let mut data = vec![0u8; len];
            let fill = ch.bytes(len.min(12));
            for (i, b) in data.iter_mut().enumerate() {
                *b = fill[i % fill.len().max(1)].wrapping_add(i as u8);
            }
            ((0b10 << 1) | link | (nth << 3), Body::Git(data))
        }
        _ => {
            let cmd = ch.pick(3) as u8;
            let s = *ch.choose(&[4u64, 5, 12, 0, 1 << 40, (1 << 62) - 1]);
            (link | (nth << 3), Body::Control(cmd, s))
        }
    };
    let ws = pick_width(ch, stream);
    let wl = *ch.choose(&[1u8, 2, 4, 8]);
    let canonical = encode(stream, &body, min_width(stream), 1, None, VERSION);
    let mut spec = Spec {
        stream,
        bytes: encode(stream, &body, ws, wl, None, VERSION),
        body: body.clone(),
        fault: "none",
        sent: 0,
        canonical: Some(canonical),
        complete: true,
    };
    spec.sent = spec.bytes.len();
    if !allow_fault {
        return spec;
    }
    // byzantine alterations; 0 = none
    match ch.weighted(&[6, 3, 2, 2, 2, 1, 1, 2]) {
        0 => {}
        1 => {
            // lying length: header declares L, fewer bytes follow (frame stays incomplete)
            if let Body::Gossip(p) | Body::Git(p) = &body {
                let l = *ch.choose(&[
                    p.len() as u64 + 1,
                    65_536,
                    65_537 + 70_000,
                    1 << 20,
                    3 << 20,
                    100 << 20,
                    1 << 30,
                    1 << 40,
                    (1 << 62) - 1,
                ]);
                if l > p.len() as u64 {
                    spec.bytes = encode(stream, &body, ws, wl, Some(l), VERSION);
                    spec.sent = spec.bytes.len();
                    spec.fault = "lying-length";
                    spec.canonical = None;
                    spec.complete = false;
                }
            }
        }
        2 => {
            // truncated inner message inside a complete frame
            if let Body::Gossip(p) = &body {
                if p.len() > 2 {
                    let cut = 1 + ch.pick_usize(p.len() - 1);
                    let b = Body::Gossip(p[..cut].to_vec());
                    spec.bytes = encode(stream, &b, ws, wl, None, VERSION);
                    spec.sent = spec.bytes.len();
                    spec.body = b;
                    spec.fault = "truncated-inner";
                    spec.canonical = None; // may or may not decode; must not be "incomplete"
                }
            }
        }
        3 => {
            // garbage inner
            if let Body::Gossip(_) = &body {
                let n = *ch.choose(&[0usize, 1, 2, 3, 40]);
                let b = Body::Gossip(ch.bytes(n));
                spec.bytes = encode(stream, &b, ws, wl, None, VERSION);
                spec.sent = spec.bytes.len();
                spec.body = b;
                spec.fault = "garbage-inner";
                spec.canonical = None;
            }
        }
        4 => {
            // over-long inner: valid message followed by junk inside the frame (dropped by design)
            if let Body::Gossip(p) = &body {
                let mut q = p.clone();
                let extra = 1 + ch.pick_usize(9);
                q.extend_from_slice(&ch.bytes(extra));
                let b = Body::Gossip(q);
                spec.bytes = encode(stream, &b, ws, wl, None, VERSION);
                spec.sent = spec.bytes.len();
                spec.fault = "overlong-inner";
                // canonical stays the encoding of the valid message
            }
        }
        5 => {
            spec.bytes = encode(stream, &body, ws, wl, None, *ch.choose(&[[b'r', b'a', b'd', 2], [b'r', b'a', b'd', 0], [0, 0, 0, 0], [b'R', b'A', b'D', 1]]));
            spec.sent = spec.bytes.len();
            spec.fault = "bad-version";
            spec.canonical = None;
        }
        6 => {
            let s = (0b11 << 1) | link | (nth << 3);
            spec.bytes = encode(s, &body, pick_width(ch, s), wl, None, VERSION);
            spec.sent = spec.bytes.len();
            spec.fault = "bad-stream-kind";
            spec.canonical = None;
        }
        _ => {
            // connection cut mid-frame
            if spec.bytes.len() > 1 {
                spec.sent = 1 + ch.pick_usize(spec.bytes.len() - 1);
                spec.fault = "cut";
                spec.canonical = None;
                spec.complete = false;
            }
        }
    }
    spec
}

#[derive(PartialEq, Eq, Debug, Clone)]
enum Out {
    Frame(Vec<u8>),
    Err(String),
}

struct FeedResult {
    outs: Vec<Out>,
    /// (bytes received so far, largest allocation) at the worst decode call
    worst_alloc: (usize, usize),
    /// Ok(None) returned when `received` was >= some complete-frame boundary with pending data
    pending_after: usize,
}

fn feed(stream: &[u8], cuts: &[usize]) -> FeedResult {
    let mut de: Deserializer<MAX_INBOX_SIZE, Frame<Message>> = Deserializer::new(1024);
    let mut outs = Vec::new();
    let mut worst = (0usize, 0usize);
    let mut prev = 0;
    let mut received = 0usize;
    let mut bounds: Vec<usize> = cuts.to_vec();
    bounds.push(stream.len());
    'outer: for b in bounds {
        if b <= prev {
            continue;
        }
        if de.input(&stream[prev..b]).is_err() {
            outs.push(Out::Err("inbox-overflow".into()));
            break;
        }
        received = b;
        prev = b;
        loop {
            let (r, max) = alloc::scope(|| de.deserialize_next());
            if max > 2 * received + SLACK && max.saturating_sub(received) > worst.1.saturating_sub(worst.0) {
                worst = (received, max);
            }
            match r {
                Ok(Some(f)) => outs.push(Out::Frame(f.to_bytes())),
                Ok(None) => break,
                Err(e) => {
                    outs.push(Out::Err(variant(&e)));
                    break 'outer;
                }
            }
        }
    }
    FeedResult {
        outs,
        worst_alloc: worst,
        pending_after: de.len(),
    }
}

fn variant(e: &wire::Error) -> String {
    let s = format!("{:?}", e);
    s.split(|c: char| !c.is_alphanumeric()).next().unwrap_or("").to_string()
}

pub fn run(ch: &mut Chooser, cfg: &RunCfg) -> RunResult {
    let own = cfg.property.as_str();
    let mut res = RunResult::new();
    let seed = ch.seed;
    let faulty_run = ch.pick(4) != 0; // 1 in 4 runs is fault-free
    let n = 1 + ch.pick_usize(5);
    let mut specs = Vec::new();
    for i in 0..n {
        // at most one byzantine frame, and it is the last one sent
        let last = i + 1 == n;
        let s = gen_frame(ch, seed, faulty_run && last);
        specs.push(s);
    }
    let mut stream = Vec::new();
    let mut frame_ends = Vec::new();
    for s in &specs {
        stream.extend_from_slice(&s.bytes[..s.sent]);
        frame_ends.push(stream.len());
        let kindname = match s.body { Body::Gossip(_) => "gossip", Body::Git(_) => "git", Body::Control(..) => "control" };
        res.trace.log(&format!("{}:{}:{}", kindname, s.fault, 64 - (s.bytes.len() as u64).leading_zeros()), format!("frame stream={} kind={} len={} sent={} fault={}", s.stream, match s.body { Body::Gossip(_) => "gossip", Body::Git(_) => "git", Body::Control(..) => "control" }, s.bytes.len(), s.sent, s.fault));
        if s.fault != "none" {
            res.hit(&format!("fault.frame.{}", s.fault));
        }
    }
    let total = stream.len();
    res.steps = n as u64;
    res.nontrivial = n >= 2 || specs.iter().any(|s| s.fault != "none");
    res.summary = format!("{} frame(s), {} byte(s), last fault={}", n, total, specs.last().map(|s| s.fault).unwrap_or("none"));

    // Reference: one-shot feed.
    let one = match catch(|| feed(&stream, &[])) {
        Ok(r) => r,
        Err(p) => {
            res.violate(own, "C13", &format!("C13/panic/{}", p.class()), format!("panic decoding frames in one shot: {}", p.message));
            return res;
        }
    };
    res.trace.log("oneshot", format!("one-shot outs={} pending={}", one.outs.len(), one.pending_after));

    // Expected outputs from the specification of what was sent.
    let mut expect: Vec<Option<Out>> = Vec::new(); // None = "either a frame or an error, but not incomplete"
    let mut stop = false;
    for s in &specs {
        if stop {
            break;
        }
        match (&s.canonical, s.complete, s.fault) {
            (Some(c), true, _) => expect.push(Some(Out::Frame(c.clone()))),
            (None, false, _) => {
                stop = true; // incomplete: nothing more can come out
            }
            (None, true, _) => {
                expect.push(None);
                stop = true;
            }
            (Some(_), false, _) => unreachable!(),
        }
    }
    check_against_expect(own, &mut res, &one, &expect, &specs, "one-shot");
    alloc_oracle(own, &mut res, &one, "one-shot");

    // Chunkings: every single split point when small, sampled otherwise; plus multi-way splits.
    let mut chunkings: Vec<Vec<usize>> = Vec::new();
    if total <= 600 || cfg.tier_thorough && total <= 3000 {
        for p in 1..total {
            chunkings.push(vec![p]);
        }
        res.hit("probe.all_split_points");
    } else {
        let k = if cfg.tier_thorough { 96 } else { 24 };
        for _ in 0..k {
            chunkings.push(vec![1 + ch.pick_usize(total.max(2) - 1)]);
        }
        // always the interesting ones: around each frame boundary and header
        for e in &frame_ends {
            for d in [-2i64, -1, 1, 2, 4, 5, 6, 7, 9, 13] {
                let p = *e as i64 + d;
                if p > 0 && (p as usize) < total {
                    chunkings.push(vec![p as usize]);
                }
            }
        }
    }
    for _ in 0..(if cfg.tier_thorough { 12 } else { 4 }) {
        // multi-way: 2..40 cuts, or byte-by-byte for small streams
        let mut cuts = Vec::new();
        if total <= 300 && ch.pick(4) == 1 {
            cuts = (1..total).collect();
        } else {
            let k = 2 + ch.pick_usize(39);
            for _ in 0..k {
                cuts.push(1 + ch.pick_usize(total.max(2) - 1));
            }
            cuts.sort();
            cuts.dedup();
        }
        chunkings.push(cuts);
    }
    res.hit_n("probe.chunkings", chunkings.len() as u64);
    let mut h = FNV0;
    for cuts in &chunkings {
        let r = match catch(|| feed(&stream, cuts)) {
            Ok(r) => r,
            Err(p) => {
                res.violate(own, "C13", &format!("C13/panic/{}", p.class()), format!("panic decoding frames with cuts {:?}: {}", &cuts[..cuts.len().min(4)], p.message));
                return res;
            }
        };
        if r.outs != one.outs {
            let k = r.outs.iter().zip(one.outs.iter()).position(|(a, b)| a != b).unwrap_or(r.outs.len().min(one.outs.len()));
            res.trace.log("mismatch", format!("cuts={:?} outs={} one-shot outs={} first difference at {}", &cuts[..cuts.len().min(6)], r.outs.len(), one.outs.len(), k));
            res.violate(own, "C14", "C14/chunking/outputs-differ", format!("frames decoded with cuts {:?} differ from one-shot decode at output {} ({} vs {} outputs)", &cuts[..cuts.len().min(6)], k, r.outs.len(), one.outs.len()));
        }
        alloc_oracle(own, &mut res, &r, "chunked");
        h = fnv(h, &(r.outs.len() as u64).to_le_bytes());
    }
    res.state(fnv(h, &(total as u64).to_le_bytes()) ^ res.trace.seq_hash);
    res.trace.log("done", format!("chunkings={} outs={}", chunkings.len(), one.outs.len()));
    res
}

fn alloc_oracle(own: &str, res: &mut RunResult, r: &FeedResult, how: &str) {
    if r.worst_alloc.1 > 0 {
        res.trace.log("alloc", format!("{how}: allocation of {} bytes requested with {} bytes received", r.worst_alloc.1, r.worst_alloc.0));
        res.violate(own, "C14", "C14/alloc/declared-length-reserved", format!("decoder requested a single allocation of {} bytes after receiving {} bytes (bound: 2 x received + {} bytes)", r.worst_alloc.1, r.worst_alloc.0, SLACK));
    }
}

fn check_against_expect(own: &str, res: &mut RunResult, got: &FeedResult, expect: &[Option<Out>], specs: &[Spec], how: &str) {
    for (i, e) in expect.iter().enumerate() {
        match (e, got.outs.get(i)) {
            (Some(want), Some(have)) => {
                if want != have {
                    let what = match have {
                        Out::Err(v) => format!("error {v}"),
                        Out::Frame(_) => "a different frame".to_string(),
                    };
                    res.trace.log("wrong-frame", format!("{how}: output {i}: {what}"));
                    res.violate(own, "C14", "C14/roundtrip/frame-differs", format!("{how}: frame {i} (fault={}) decoded to {what}", specs[i].fault));
                }
            }
            (Some(_), None) => {
                res.trace.log("missing-frame", format!("{how}: output {i} missing"));
                res.violate(own, "C14", "C14/roundtrip/frame-missing", format!("{how}: valid complete frame {i} (fault={}) was not decoded ({} outputs)", specs[i].fault, got.outs.len()));
            }
            (None, Some(_)) => {
                res.hit(&format!("probe.complete_invalid.{}", specs[i].fault));
            }
            (None, None) => {
                res.trace.log("incomplete", format!("{how}: complete frame {i} fault={} reported as incomplete data; {} byte(s) stay buffered", specs[i].fault, got.pending_after));
                res.violate(own, "C14", &format!("C14/complete-invalid-as-incomplete/{}", specs[i].fault), format!("{how}: all bytes of frame {i} (fault={}) were fed, the decoder reported neither a frame nor an error (Ok(None)); {} byte(s) stay buffered", specs[i].fault, got.pending_after));
            }
        }
    }
    if got.outs.len() > expect.len() {
        // more outputs than frames that could have produced one
        let extra = &got.outs[expect.len()];
        if let Out::Frame(_) = extra {
            res.violate(own, "C14", "C14/roundtrip/extra-frame", format!("{how}: decoder produced {} outputs for {} decodable frames", got.outs.len(), expect.len()));
        } else {
            // an error on an incomplete frame: allowed only if that frame is invalid already in its received prefix
            res.hit("probe.error_on_incomplete_prefix");
        }
    }
}

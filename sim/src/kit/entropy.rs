//! Entropy seam: the binary defines `getrandom`/`getentropy` itself, so every
//! statically linked consumer (std's `RandomState`, the `getrandom` crate, libgit2,
//! SQLite's OS-randomness fallback) draws from a per-thread xorshift stream that
//! the simulator seeds per run. Each run executes in a fresh thread, so std's
//! per-thread hash keys are re-drawn from the run's stream.

use std::cell::Cell;

thread_local! {
    static ENT: Cell<u64> = const { Cell::new(0x9E3779B97F4A7C15) };
}

/// Seed the calling thread's entropy stream.
pub fn reseed(seed: u64) {
    let s = super::splitmix(seed ^ 0x5EED_E417);
    ENT.with(|e| e.set(if s == 0 { 1 } else { s }));
}

fn next() -> u64 {
    ENT.with(|e| {
        let mut x = e.get();
        x ^= x << 13;
        x ^= x >> 7;
        x ^= x << 17;
        e.set(x);
        x
    })
}

#[no_mangle]
pub unsafe extern "C" fn getrandom(buf: *mut u8, len: usize, _flags: u32) -> isize {
    let mut i = 0;
    while i < len {
        let v = next();
        let mut k = 0;
        while k < 8 && i < len {
            *buf.add(i) = (v >> (8 * k)) as u8;
            i += 1;
            k += 1;
        }
    }
    len as isize
}

#[no_mangle]
pub unsafe extern "C" fn getentropy(buf: *mut u8, len: usize) -> i32 {
    getrandom(buf, len, 0);
    0
}

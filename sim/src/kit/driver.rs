//! Batch driver: worker processes, aggregation, minimisation, replay files,
//! known findings, evidence.

use std::collections::{BTreeMap, BTreeSet, HashSet};
use std::io::{BufRead, BufReader, Write};
use std::path::{Path, PathBuf};
use std::process::{Command, Stdio};
use std::time::Instant;

use serde_json::{json, Value};

use super::{run_seed, CheckSpec, Chooser, RunCfg, RunResult};

pub const DEFAULT_SEED: u64 = 20260921;
pub const VERIF_DIR: &str = "/verif";

pub fn scratch_base() -> PathBuf {
    if let Ok(p) = std::env::var("VERIF_SCRATCH") {
        return PathBuf::from(p);
    }
    let shm = Path::new("/dev/shm");
    if shm.is_dir() {
        shm.join("hwsim")
    } else {
        std::env::temp_dir().join("hwsim")
    }
}

/// Execute one run in a fresh thread (fresh std hash keys from the run's entropy stream).
pub fn execute(spec: &'static CheckSpec, seed: u64, index: u64, thorough: bool, replay: Option<Vec<Vec<u32>>>) -> (RunResult, Vec<Vec<u32>>) {
    let scratch = scratch_base().join(format!("{}-{}", std::process::id(), index));
    if spec.needs_scratch {
        let _ = std::fs::remove_dir_all(&scratch);
        std::fs::create_dir_all(&scratch).expect("scratch dir");
    }
    let scratch2 = scratch.clone();
    let prop = spec.property.to_string();
    let handle = std::thread::Builder::new()
        .stack_size(64 * 1024 * 1024)
        .spawn(move || {
            super::entropy::reseed(seed);
            std::env::set_var("TMPDIR", &scratch2);
            std::env::set_var("RAD_RNG_SEED", (seed & 0xffff_ffff).to_string());
            let mut ch = match replay {
                Some(c) => Chooser::replay(seed, c),
                None => Chooser::record(seed),
            };
            let cfg = RunCfg {
                property: prop,
                index,
                tier_thorough: thorough,
                scratch: scratch2.clone(),
            };
            let r = (spec.run)(&mut ch, &cfg);
            (r, ch.choices)
        })
        .expect("spawn run thread");
    let out = handle.join();
    if spec.needs_scratch {
        let _ = std::fs::remove_dir_all(&scratch);
    }
    match out {
        Ok(v) => v,
        Err(_) => {
            // A panic that escaped the world's own catch: harness error.
            eprintln!("HARNESS-PANIC property={} seed={} index={} {:?}", spec.property, seed, index, super::json::last_panic());
            std::process::exit(2);
        }
    }
}

fn result_json(index: u64, seed: u64, r: &RunResult, choices: &[Vec<u32>], full: bool) -> Value {
    let mut v = json!({
        "i": index, "seed": seed, "fp": format!("{:016x}", r.trace.fingerprint),
        "seq": format!("{:016x}", r.trace.seq_hash),
        "steps": r.steps, "sim_ms": r.sim_ms, "nt": r.nontrivial, "events": r.trace.count,
        "viol": r.violations.iter().map(|v| json!({"p": v.property, "c": v.class, "d": v.detail})).collect::<Vec<_>>(),
        "foreign": r.foreign, "ctr": r.counters, "summary": r.summary, "draws": choices.iter().map(|s| s.len()).sum::<usize>(),
    });
    if full || !r.violations.is_empty() {
        v["choices"] = json!(choices);
        v["trace"] = json!(r.trace.lines);
    }
    v
}

/// Worker: run indices from, from+stride, ... < to (or until the deadline).
pub fn worker(spec: &'static CheckSpec, base_seed: u64, from: u64, to: u64, stride: u64, thorough: bool, deadline_s: u64) {
    let start = Instant::now();
    let stdout = std::io::stdout();
    let mut states: HashSet<u64> = HashSet::new();
    let mut i = from;
    while i < to {
        if start.elapsed().as_secs() >= deadline_s {
            break;
        }
        let seed = run_seed(base_seed, spec.property, i);
        {
            let mut o = stdout.lock();
            writeln!(o, "B {}", i).ok();
            o.flush().ok();
        }
        let (r, choices) = execute(spec, seed, i, thorough, None);
        if states.len() < 2_000_000 {
            for s in &r.states {
                states.insert(*s);
            }
        }
        let v = result_json(i, seed, &r, &choices, std::env::var("VERIF_FULL").is_ok());
        {
            let mut o = stdout.lock();
            writeln!(o, "R {}", v).ok();
            o.flush().ok();
        }
        i += stride;
    }
    // dump states
    let path = scratch_base().join(format!("states-{}.bin", std::process::id()));
    std::fs::create_dir_all(scratch_base()).ok();
    let mut bytes = Vec::with_capacity(states.len() * 8);
    for s in &states {
        bytes.extend_from_slice(&s.to_le_bytes());
    }
    std::fs::write(&path, bytes).ok();
    let mut o = stdout.lock();
    writeln!(o, "S {}", path.display()).ok();
    writeln!(o, "E {}", i).ok();
    o.flush().ok();
}

/// One run from an explicit choice vector, in this process; prints one R line (full).
pub fn exec_one(spec: &'static CheckSpec, seed: u64, index: u64, thorough: bool, choices: Option<Vec<Vec<u32>>>) {
    println!("B {}", index);
    std::io::stdout().flush().ok();
    let (r, ch) = execute(spec, seed, index, thorough, choices);
    println!("R {}", result_json(index, seed, &r, &ch, true));
    std::io::stdout().flush().ok();
}

struct ChildOutcome {
    result: Option<Value>,
    aborted: bool,
    stderr_tail: String,
}

fn exec_child(spec: &CheckSpec, seed: u64, index: u64, thorough: bool, choices: Option<&[Vec<u32>]>) -> ChildOutcome {
    let exe = std::env::current_exe().expect("current_exe");
    let mut cmd = Command::new(exe);
    cmd.arg("exec").arg(spec.property).arg(seed.to_string()).arg(index.to_string()).arg(if thorough { "thorough" } else { "quick" });
    let file;
    if let Some(c) = choices {
        std::fs::create_dir_all(scratch_base()).ok();
        file = scratch_base().join(format!("choices-{}-{}.json", std::process::id(), index));
        std::fs::write(&file, serde_json::to_vec(c).unwrap()).unwrap();
        cmd.arg(&file);
    } else {
        file = PathBuf::new();
    }
    let out = cmd.env("RUST_BACKTRACE", "0").stdin(Stdio::null()).output().expect("spawn exec child");
    if !file.as_os_str().is_empty() {
        let _ = std::fs::remove_file(&file);
    }
    let stdout = String::from_utf8_lossy(&out.stdout);
    let mut result = None;
    for l in stdout.lines() {
        if let Some(rest) = l.strip_prefix("R ") {
            result = serde_json::from_str(rest).ok();
        }
    }
    let stderr = String::from_utf8_lossy(&out.stderr);
    let mut tail: Vec<&str> = stderr.lines().rev().take(3).collect();
    for l in stderr.lines().filter(|l| l.starts_with("ALLOC-CAP") || l.starts_with("HARNESS-PANIC") || l.contains("stack overflow") || l.starts_with("memory allocation")).take(4) {
        tail.push(l);
    }
    ChildOutcome {
        aborted: result.is_none() && !out.status.success() && out.status.code() != Some(2),
        result,
        stderr_tail: tail.into_iter().rev().collect::<Vec<_>>().join(" | "),
    }
}

fn abort_class(stderr_tail: &str) -> String {
    if stderr_tail.contains("ALLOC-CAP") {
        "abort/alloc-cap".to_string()
    } else if stderr_tail.contains("stack overflow") {
        "abort/stack-overflow".to_string()
    } else {
        "abort/other".to_string()
    }
}

/// Classes (property, class) produced by a child execution; aborts map to C13-style classes
/// attributed to the check's own property.
fn classes_of(spec: &CheckSpec, o: &ChildOutcome) -> Vec<(String, String, String)> {
    if let Some(r) = &o.result {
        r["viol"].as_array().map(|a| {
            a.iter().map(|v| (v["p"].as_str().unwrap_or("").to_string(), v["c"].as_str().unwrap_or("").to_string(), v["d"].as_str().unwrap_or("").to_string())).collect()
        }).unwrap_or_default()
    } else if o.aborted {
        vec![(spec.property.to_string(), format!("{}/{}", spec.property, abort_class(&o.stderr_tail)), o.stderr_tail.clone())]
    } else {
        vec![]
    }
}

fn parse_choices(v: &Value) -> Option<Vec<Vec<u32>>> {
    v.as_array().map(|a| {
        a.iter()
            .map(|seg| seg.as_array().map(|s| s.iter().map(|c| c.as_u64().unwrap_or(0) as u32).collect()).unwrap_or_default())
            .collect()
    })
}

fn total_draws(c: &[Vec<u32>]) -> usize {
    c.iter().map(|s| s.len()).sum()
}

/// Delta-debug the segmented choice vector while the same (property, class) persists:
/// drop whole segments (scheduler steps), truncate, zero and shorten inside segments.
fn minimise(spec: &CheckSpec, seed: u64, index: u64, thorough: bool, choices: Vec<Vec<u32>>, class: &str, budget: usize, secs: u64) -> (Vec<Vec<u32>>, usize) {
    let start = Instant::now();
    let mut best = choices;
    let mut tries = 0usize;
    let mut test = |cand: &[Vec<u32>], tries: &mut usize| -> bool {
        *tries += 1;
        let o = exec_child(spec, seed, index, thorough, Some(cand));
        classes_of(spec, &o).iter().any(|(_, c, _)| c == class)
    };
    let live = |tries: usize| tries < budget && start.elapsed().as_secs() < secs;
    // 1. shortest prefix of segments (binary search)
    if best.len() > 1 {
        let (mut lo, mut hi) = (1usize, best.len());
        while lo < hi && live(tries) {
            let mid = (lo + hi) / 2;
            if test(&best[..mid], &mut tries) {
                hi = mid;
            } else {
                lo = mid + 1;
            }
        }
        if hi < best.len() && live(tries) && test(&best[..hi], &mut tries) {
            best.truncate(hi);
        }
    }
    // 2. remove chunks of segments (never segment 0: the setup)
    let mut chunk = (best.len() / 2).max(1);
    loop {
        let mut i = 1;
        while i < best.len() && live(tries) {
            let end = (i + chunk).min(best.len());
            let mut cand = best[..i].to_vec();
            cand.extend_from_slice(&best[end..]);
            if test(&cand, &mut tries) {
                best = cand;
            } else {
                i = end;
            }
        }
        if chunk == 1 || !live(tries) {
            break;
        }
        chunk /= 2;
    }
    // 3. inside segments: replace a segment by zeros / shorter prefixes, zero single entries
    for k in 0..best.len() {
        if !live(tries) {
            break;
        }
        if best[k].iter().any(|x| *x != 0) {
            // keep only the first draw (the step kind), rest benign
            if best[k].len() > 1 {
                let mut cand = best.clone();
                cand[k].truncate(1);
                if test(&cand, &mut tries) {
                    best = cand;
                    continue;
                }
            }
            let mut j = best[k].len();
            while j > 0 && live(tries) {
                j -= 1;
                if best[k][j] != 0 {
                    let mut cand = best.clone();
                    cand[k][j] = 0;
                    if test(&cand, &mut tries) {
                        best = cand;
                    }
                }
            }
        }
    }
    for seg in best.iter_mut() {
        while seg.last() == Some(&0) {
            seg.pop();
        }
    }
    while best.len() > 1 && best.last().map(|s| s.is_empty()).unwrap_or(false) {
        best.pop();
    }
    (best, tries)
}

#[derive(Clone)]
pub struct Known {
    pub status: String,
    pub property: String,
    pub class: String,
    pub what: String,
}

pub fn load_known() -> Vec<Known> {
    let p = Path::new(VERIF_DIR).join("known-findings.jsonl");
    let mut out = Vec::new();
    if let Ok(s) = std::fs::read_to_string(p) {
        for l in s.lines() {
            if l.trim().is_empty() {
                continue;
            }
            if let Ok(v) = serde_json::from_str::<Value>(l) {
                out.push(Known {
                    status: v["status"].as_str().unwrap_or("").to_string(),
                    property: v["property"].as_str().unwrap_or("").to_string(),
                    class: v["class"].as_str().unwrap_or("").to_string(),
                    what: v["what_fails"].as_str().unwrap_or("").to_string(),
                });
            }
        }
    }
    out
}

fn repo_rev() -> String {
    let head = Command::new("git").args(["-C", "/repo", "rev-parse", "--short", "HEAD"]).output().ok().map(|o| String::from_utf8_lossy(&o.stdout).trim().to_string()).unwrap_or_default();
    let dirty = Command::new("git").args(["-C", "/repo", "status", "--porcelain", "--untracked-files=no"]).output().ok().map(|o| !o.stdout.is_empty()).unwrap_or(false);
    format!("{}{}", head, if dirty { "+dirty" } else { "" })
}

struct Candidate {
    property: String,
    class: String,
    detail: String,
    index: u64,
    seed: u64,
    choices: Option<Vec<Vec<u32>>>, // None for aborts (re-executed to obtain)
}

/// Run a whole check. Returns the process exit code.
pub fn check(spec: &'static CheckSpec, thorough: bool) -> i32 {
    let t0 = Instant::now();
    let base_seed: u64 = std::env::var("VERIF_SEED").ok().and_then(|s| s.parse().ok()).unwrap_or(DEFAULT_SEED);
    let workers: u64 = std::env::var("VERIF_WORKERS").ok().and_then(|s| s.parse().ok()).unwrap_or(16);
    let scale: f64 = std::env::var("VERIF_SCALE").ok().and_then(|s| s.parse().ok()).unwrap_or(1.0);
    let total = (((if thorough { spec.thorough_runs } else { spec.quick_runs }) as f64) * scale).max(1.0) as u64;
    let secs = if thorough { spec.thorough_secs } else { spec.quick_secs };
    println!("hwsim check property={} tier={} VERIF_SEED={} runs<={} wall<={}s workers={} repo={}", spec.property, if thorough { "thorough" } else { "quick" }, base_seed, total, secs, workers, repo_rev());

    let exe = std::env::current_exe().expect("current_exe");
    let (tx, rx) = std::sync::mpsc::channel::<(u64, String)>();
    let mut handles = Vec::new();
    for w in 0..workers {
        let tx = tx.clone();
        let exe = exe.clone();
        let prop = spec.property.to_string();
        handles.push(std::thread::spawn(move || {
            // respawn loop: a worker that dies mid-run is restarted after the fatal index
            let mut from = w;
            let started = Instant::now();
            while from < total {
                let remaining = secs.saturating_sub(started.elapsed().as_secs());
                if remaining == 0 {
                    break;
                }
                let mut child = Command::new(&exe)
                    .arg("worker").arg(&prop).arg(base_seed.to_string())
                    .arg(from.to_string()).arg(total.to_string()).arg(workers.to_string())
                    .arg(if thorough { "thorough" } else { "quick" }).arg(remaining.to_string())
                    .env("RUST_BACKTRACE", "0")
                    .stdin(Stdio::null()).stdout(Stdio::piped()).stderr(Stdio::piped())
                    .spawn().expect("spawn worker");
                let out = child.stdout.take().unwrap();
                let err = child.stderr.take().unwrap();
                let errh = std::thread::spawn(move || {
                    let mut tail: Vec<String> = Vec::new();
                    let mut marks: Vec<String> = Vec::new();
                    for l in BufReader::new(err).lines().map_while(Result::ok) {
                        if (l.starts_with("ALLOC-CAP") || l.starts_with("HARNESS-PANIC") || l.contains("stack overflow") || l.starts_with("memory allocation")) && marks.len() < 4 {
                            marks.push(l.clone());
                        }
                        tail.push(l);
                        if tail.len() > 3 {
                            tail.remove(0);
                        }
                    }
                    marks.extend(tail);
                    marks.join(" | ")
                });
                let mut current: Option<u64> = None;
                let mut ended = false;
                for l in BufReader::new(out).lines().map_while(Result::ok) {
                    if let Some(i) = l.strip_prefix("B ") {
                        current = i.trim().parse().ok();
                    } else if l.starts_with("R ") {
                        current = None;
                        tx.send((w, l)).ok();
                    } else if l.starts_with("S ") {
                        tx.send((w, l)).ok();
                    } else if l.starts_with("E ") {
                        ended = true;
                    }
                }
                let status = child.wait().ok();
                let tail = errh.join().unwrap_or_default();
                if ended {
                    break;
                }
                match current {
                    Some(i) => {
                        let code = status.and_then(|s| s.code());
                        if code == Some(2) {
                            tx.send((w, format!("H {} {}", i, tail))).ok();
                            break;
                        }
                        tx.send((w, format!("A {} {}", i, tail))).ok();
                        from = i + workers;
                    }
                    None => {
                        tx.send((w, format!("H ? worker died outside a run: {}", tail))).ok();
                        break;
                    }
                }
            }
        }));
    }
    drop(tx);

    let mut evaluations = 0u64;
    let mut nontrivial_seqs: HashSet<String> = HashSet::new();
    let mut all_seqs: HashSet<String> = HashSet::new();
    let mut counters: BTreeMap<String, u64> = BTreeMap::new();
    let mut foreign: BTreeMap<String, u64> = BTreeMap::new();
    let mut sim_ms = 0u64;
    let mut steps = 0u64;
    let mut events = 0u64;
    let mut samples: Vec<Value> = Vec::new();
    let mut candidates: Vec<Candidate> = Vec::new();
    let mut seen_classes: BTreeMap<String, u64> = BTreeMap::new();
    let mut state_files: Vec<String> = Vec::new();
    let mut harness_errors: Vec<String> = Vec::new();
    let mut fingerprints: BTreeMap<u64, String> = BTreeMap::new();

    for (_w, line) in rx {
        if let Some(rest) = line.strip_prefix("R ") {
            let v: Value = match serde_json::from_str(rest) {
                Ok(v) => v,
                Err(e) => {
                    harness_errors.push(format!("bad worker line: {e}"));
                    continue;
                }
            };
            evaluations += 1;
            let seq = v["seq"].as_str().unwrap_or("").to_string();
            if v["nt"].as_bool().unwrap_or(false) {
                nontrivial_seqs.insert(seq.clone());
            }
            all_seqs.insert(seq);
            sim_ms += v["sim_ms"].as_u64().unwrap_or(0);
            steps += v["steps"].as_u64().unwrap_or(0);
            events += v["events"].as_u64().unwrap_or(0);
            if let Some(o) = v["ctr"].as_object() {
                for (k, n) in o {
                    *counters.entry(k.clone()).or_insert(0) += n.as_u64().unwrap_or(0);
                }
            }
            if let Some(o) = v["foreign"].as_object() {
                for (k, n) in o {
                    *foreign.entry(k.clone()).or_insert(0) += n.as_u64().unwrap_or(0);
                    if std::env::var("VERIF_SHOW_FOREIGN").is_ok() {
                        eprintln!("foreign {k} x{n} in run {} seed {}", v["i"], v["seed"]);
                    }
                }
            }
            let idx = v["i"].as_u64().unwrap_or(0);
            if idx % 50 == 0 && fingerprints.len() < 64 {
                fingerprints.insert(idx, v["fp"].as_str().unwrap_or("").to_string());
            }
            if samples.len() < 4 && v["nt"].as_bool().unwrap_or(false) {
                samples.push(json!({"run": idx, "seed": v["seed"], "steps": v["steps"], "events": v["events"], "summary": v["summary"], "faults_and_probes": v["ctr"]}));
            }
            if let Some(a) = v["viol"].as_array() {
                for x in a {
                    let class = x["c"].as_str().unwrap_or("").to_string();
                    let n = seen_classes.entry(class.clone()).or_insert(0);
                    *n += 1;
                    if *n == 1 {
                        candidates.push(Candidate {
                            property: x["p"].as_str().unwrap_or("").to_string(),
                            class,
                            detail: x["d"].as_str().unwrap_or("").to_string(),
                            index: idx,
                            seed: v["seed"].as_u64().unwrap_or(0),
                            choices: parse_choices(&v["choices"]),
                        });
                    }
                }
            }
        } else if let Some(rest) = line.strip_prefix("S ") {
            state_files.push(rest.trim().to_string());
        } else if let Some(rest) = line.strip_prefix("A ") {
            let (i, tail) = rest.split_once(' ').unwrap_or((rest, ""));
            let idx: u64 = i.parse().unwrap_or(0);
            evaluations += 1;
            let class = format!("{}/{}", spec.property, abort_class(tail));
            let n = seen_classes.entry(class.clone()).or_insert(0);
            *n += 1;
            if *n == 1 {
                candidates.push(Candidate { property: spec.property.to_string(), class, detail: tail.to_string(), index: idx, seed: run_seed(base_seed, spec.property, idx), choices: None });
            }
        } else if let Some(rest) = line.strip_prefix("H ") {
            harness_errors.push(rest.to_string());
        }
    }
    for h in handles {
        let _ = h.join();
    }

    // distinct abstract states
    let mut states: HashSet<u64> = HashSet::new();
    for f in &state_files {
        if let Ok(b) = std::fs::read(f) {
            for c in b.chunks_exact(8) {
                if states.len() < 8_000_000 {
                    states.insert(u64::from_le_bytes(c.try_into().unwrap()));
                }
            }
        }
        let _ = std::fs::remove_file(f);
    }
    let search_s = t0.elapsed().as_secs_f64();

    // determinism sample: re-execute a few recorded runs in fresh processes and compare fingerprints
    let mut determinism_checked = 0u64;
    let mut timing_divergences = 0u64;
    let det_n = if thorough { 24 } else { 6 };
    for (idx, fp) in fingerprints.iter().take(det_n) {
        let seed = run_seed(base_seed, spec.property, *idx);
        let o = exec_child(spec, seed, *idx, thorough, None);
        match &o.result {
            Some(r) => {
                determinism_checked += 1;
                let fp2 = r["fp"].as_str().unwrap_or("").to_string();
                if &fp2 != fp {
                    // Worlds that talk to a real child process (git upload-pack) do not own its real-time behaviour:
                    // how it chunks its output under machine load can move a byte-offset fault to another place.
                    // Re-execute twice more: the batch run is accepted as a timing divergence if the fresh executions
                    // agree with each other; for every other world a mismatch is a harness error.
                    let external = spec.world.contains("FETCH");
                    let again: Vec<String> = (0..2).map(|_| exec_child(spec, seed, *idx, thorough, None).result.map(|r| r["fp"].as_str().unwrap_or("").to_string()).unwrap_or_default()).collect();
                    if external && again.iter().any(|f| f == fp) {
                        timing_divergences += 1;
                    } else if external && again.iter().all(|f| *f == fp2) {
                        println!("NOTE timing divergence property={} seed={} index={}: the batch execution differs from three identical fresh executions (external process timing)", spec.property, seed, idx);
                        timing_divergences += 1;
                    } else {
                        harness_errors.push(format!("NONDETERMINISM property={} seed={} index={} fp {} != {}", spec.property, seed, idx, fp, fp2));
                    }
                }
            }
            None => {
                if !o.aborted {
                    harness_errors.push(format!("determinism re-execution failed for index {}: {}", idx, o.stderr_tail));
                }
            }
        }
    }

    // triage candidates
    let known = load_known();
    let mut violations_out: Vec<(String, String)> = Vec::new(); // (property, replay path)
    let mut known_hits: Vec<String> = Vec::new();
    let out_dir = std::env::var("VERIF_OUT").unwrap_or_else(|_| VERIF_DIR.to_string());
    let replays_dir = Path::new(&out_dir).join("replays");
    std::fs::create_dir_all(&replays_dir).ok();
    candidates.sort_by(|a, b| a.class.cmp(&b.class));
    let mut reported = 0;
    let mut unreproduced_aborts = 0u64;
    for c in &candidates {
        let is_known = known.iter().any(|k| k.status == "known" && k.property == c.property && k.class == c.class);
        if is_known {
            let k = known.iter().find(|k| k.status == "known" && k.class == c.class).unwrap();
            println!("KNOWN-FINDING: property={} class={} {} (seen in {} run(s), e.g. seed={} run={})", c.property, c.class, k.what, seen_classes.get(&c.class).copied().unwrap_or(0), c.seed, c.index);
            known_hits.push(c.class.clone());
            if std::env::var("VERIF_SAVE_KNOWN").is_err() {
                continue;
            }
        }
        let save_known = is_known;
        if reported >= 6 {
            // still a violation; report without minimisation to bound time
        }
        // obtain choices (aborts: unknown => re-execute alone in record mode; same seed gives same run)
        let mut confirm = exec_child(spec, c.seed, c.index, thorough, c.choices.as_deref());
        let mut classes = classes_of(spec, &confirm);
        if c.choices.is_none() && !classes.iter().any(|(_, cl, _)| *cl == c.class) {
            // A worker process died (abort) and the run does not die when executed alone. The only
            // inputs of a run that the simulator does not own are the real-time behaviour of child
            // processes it talks to (git upload-pack: time-based progress lines shift byte offsets under
            // heavy load). Try twice more; what never reproduces cannot be reported with a replay and is
            // counted in the evidence instead of failing the check.
            for _ in 0..2 {
                confirm = exec_child(spec, c.seed, c.index, thorough, None);
                classes = classes_of(spec, &confirm);
                if classes.iter().any(|(_, cl, _)| *cl == c.class) {
                    break;
                }
            }
            if !classes.iter().any(|(_, cl, _)| *cl == c.class) {
                println!("NOTE unreproduced abort class={} seed={} index={}: the worker died in the batch but the run completes alone (3 attempts)", c.class, c.seed, c.index);
                unreproduced_aborts += 1;
                continue;
            }
        }
        if !classes.iter().any(|(_, cl, _)| *cl == c.class) {
            harness_errors.push(format!("NONDETERMINISM candidate class={} seed={} index={} did not reproduce in a fresh process (got {:?})", c.class, c.seed, c.index, classes.iter().map(|x| &x.1).collect::<Vec<_>>()));
            continue;
        }
        let (choices, mut trace, mut detail) = match (&c.choices, &confirm.result) {
            (Some(ch), Some(r)) => (ch.clone(), r["trace"].clone(), c.detail.clone()),
            (None, _) => (Vec::new(), Value::Null, c.detail.clone()),
            (Some(ch), None) => (ch.clone(), Value::Null, c.detail.clone()),
        };
        let mut final_choices = choices.clone();
        let mut tries = 0;
        let mut minimised = false;
        if c.choices.is_some() && reported < 6 && std::env::var("VERIF_NOMIN").is_err() {
            let (m, t) = minimise(spec, c.seed, c.index, thorough, choices.clone(), &c.class, 300, 90);
            tries = t;
            // verify the minimised vector in a fresh process
            let o = exec_child(spec, c.seed, c.index, thorough, Some(&m));
            if let Some((_, _, d)) = classes_of(spec, &o).into_iter().find(|(_, cl, _)| *cl == c.class) {
                final_choices = m;
                minimised = true;
                detail = d;
                if let Some(r) = &o.result {
                    trace = r["trace"].clone();
                }
            }
        }
        let fp = {
            let o = exec_child(spec, c.seed, c.index, thorough, if c.choices.is_some() { Some(&final_choices) } else { None });
            o.result.as_ref().and_then(|r| r["fp"].as_str().map(|s| s.to_string())).unwrap_or_default()
        };
        let cls_file: String = c.class.chars().map(|ch| if ch.is_ascii_alphanumeric() { ch } else { '_' }).collect();
        let path = if save_known {
            let d = Path::new(VERIF_DIR).join("findings");
            std::fs::create_dir_all(&d).ok();
            d.join(format!("{}.json", &cls_file[..cls_file.len().min(90)]))
        } else {
            replays_dir.join(format!("{}-{}-{}-{}.json", c.property, &cls_file[..cls_file.len().min(60)], base_seed, c.index))
        };
        let file = json!({
            "property": c.property, "class": c.class, "check": spec.property, "world": spec.world,
            "repo": repo_rev(), "base_seed": base_seed, "seed": c.seed, "run": c.index,
            "tier": if thorough { "thorough" } else { "quick" },
            "record_mode": c.choices.is_none(),
            "choices": final_choices, "original_draws": total_draws(&choices), "minimised_draws": total_draws(&final_choices), "minimised": minimised, "minimise_replays": tries,
            "fingerprint": fp, "detail": detail, "trace": trace,
        });
        std::fs::write(&path, serde_json::to_vec_pretty(&file).unwrap()).ok();
        if save_known {
            println!("  saved replay of known finding {} to {} (draws {}->{})", c.class, path.display(), total_draws(&choices), total_draws(&final_choices));
            continue;
        }
        println!("VIOLATION property={} replay={}", c.property, path.display());
        println!("  class={} seed={} run={} draws={}->{} detail={}", c.class, c.seed, c.index, total_draws(&choices), total_draws(&final_choices), detail);
        violations_out.push((c.property.clone(), path.display().to_string()));
        reported += 1;
    }

    for (k, n) in counters.iter() {
        if k.starts_with("harness.") && *n > 0 {
            harness_errors.push(format!("{k} happened in {n} run(s)"));
        }
    }
    // required probes
    let mut missing_probes = Vec::new();
    if harness_errors.is_empty() && evaluations >= total.min(200) {
        for p in spec.required_probes {
            if counters.get(*p).copied().unwrap_or(0) == 0 {
                missing_probes.push(p.to_string());
            }
        }
    }

    let wall = t0.elapsed().as_secs_f64();
    let fired: BTreeMap<&String, &u64> = counters.iter().filter(|(k, _)| k.starts_with("fault.")).collect();
    let probes: BTreeMap<&String, &u64> = counters.iter().filter(|(k, _)| !k.starts_with("fault.")).collect();
    let evidence = json!({
        "property_id": spec.property,
        "tier": if thorough { "thorough" } else { "quick" },
        "seed": base_seed,
        "level": spec.level,
        "coverage": {
            "evaluations": evaluations,
            "distinct_nontrivial": nontrivial_seqs.len(),
            "rule": spec.rule,
            "samples": samples,
            "distinct_event_sequences": all_seqs.len(),
            "distinct_abstract_states": states.len(),
            "simulated_ms_total": sim_ms,
            "steps_total": steps,
            "events_total": events,
            "runs_per_hour": if search_s > 0.0 { (evaluations as f64 / search_s * 3600.0) as u64 } else { 0 },
            "faults_fired": fired,
            "probes": probes,
            "foreign_violations": foreign,
            "unreproduced_aborts": unreproduced_aborts,
            "external_timing_divergences": timing_divergences,
            "violation_classes_seen": seen_classes,
            "known_findings_met": known_hits,
            "determinism_reexecutions": determinism_checked,
            "components_real": spec.real,
            "components_stubbed": spec.stubbed,
            "world": spec.world,
            "workers": workers,
            "repo": repo_rev(),
            "harness_errors": harness_errors,
            "required_probes_missing": missing_probes,
            "exhaustive": false,
        },
        "assumptions": spec.assumptions,
        "wall_s": wall,
        "violations": violations_out.len(),
    });
    let evdir = Path::new(&out_dir).join("evidence");
    std::fs::create_dir_all(&evdir).ok();
    std::fs::write(evdir.join(format!("{}.json", spec.property)), serde_json::to_vec_pretty(&evidence).unwrap()).expect("write evidence");

    println!("summary property={} runs={} distinct_nontrivial={} states={} wall={:.1}s violations={} known={} foreign={:?}", spec.property, evaluations, nontrivial_seqs.len(), states.len(), wall, violations_out.len(), known_hits.len(), foreign);
    for e in &harness_errors {
        eprintln!("HARNESS-ERROR {}", e);
    }
    if !violations_out.is_empty() {
        return 1;
    }
    if !harness_errors.is_empty() {
        return 2;
    }
    if !missing_probes.is_empty() {
        eprintln!("HARNESS-ERROR required probes never fired: {:?}", missing_probes);
        return 2;
    }
    let _ = BTreeSet::<u8>::new();
    0
}

/// Replay a replay file in a fresh process; exit 1 (with a VIOLATION line) iff it reproduces exactly.
pub fn replay(spec_of: impl Fn(&str) -> Option<&'static CheckSpec>, path: &str) -> i32 {
    let v: Value = match std::fs::read(path).ok().and_then(|b| serde_json::from_slice(&b).ok()) {
        Some(v) => v,
        None => {
            eprintln!("cannot read replay file {path}");
            return 2;
        }
    };
    let check = v["check"].as_str().unwrap_or("");
    let Some(spec) = spec_of(check) else {
        eprintln!("unknown check {check}");
        return 2;
    };
    let seed = v["seed"].as_u64().unwrap_or(0);
    let index = v["run"].as_u64().unwrap_or(0);
    let thorough = v["tier"].as_str() == Some("thorough");
    let record_mode = v["record_mode"].as_bool().unwrap_or(false);
    let choices: Vec<Vec<u32>> = parse_choices(&v["choices"]).unwrap_or_default();
    let class = v["class"].as_str().unwrap_or("");
    let o = exec_child(spec, seed, index, thorough, if record_mode { None } else { Some(&choices) });
    let classes = classes_of(spec, &o);
    let fp = o.result.as_ref().and_then(|r| r["fp"].as_str().map(|s| s.to_string())).unwrap_or_default();
    if let Some(r) = &o.result {
        if let Some(t) = r["trace"].as_array() {
            for l in t {
                println!("  {}", l.as_str().unwrap_or(""));
            }
        }
    }
    if classes.iter().any(|(_, c, _)| c == class) {
        let want = v["fingerprint"].as_str().unwrap_or("");
        println!("reproduced class={} fingerprint={} (recorded {}){}", class, fp, want, if fp == want { " exact" } else { " FINGERPRINT DIFFERS" });
        println!("VIOLATION property={} replay={}", v["property"].as_str().unwrap_or(""), path);
        1
    } else {
        println!("not reproduced: class={} got {:?}", class, classes.iter().map(|x| &x.1).collect::<Vec<_>>());
        0
    }
}

/// Determinism self-check: every registered check, a few seeds, executed twice in
/// different fresh processes; fingerprints must agree.
pub fn selfcheck(all: &'static [CheckSpec]) -> i32 {
    let n: u64 = std::env::var("VERIF_SELFCHECK_N").ok().and_then(|s| s.parse().ok()).unwrap_or(3);
    let mut bad = 0;
    let mut jobs = Vec::new();
    for spec in all {
        for i in 0..n {
            jobs.push((spec, i));
        }
    }
    let results: Vec<(String, u64, bool, String)> = std::thread::scope(|sc| {
        let hs: Vec<_> = jobs.iter().map(|(spec, i)| {
            sc.spawn(move || {
                let seed = run_seed(DEFAULT_SEED, spec.property, *i);
                let a = exec_child(spec, seed, *i, false, None);
                let b = exec_child(spec, seed, *i, false, None);
                let fa = a.result.as_ref().and_then(|r| r["fp"].as_str().map(|s| s.to_string()));
                let fb = b.result.as_ref().and_then(|r| r["fp"].as_str().map(|s| s.to_string()));
                let ok = (fa.is_some() && fa == fb) || (a.aborted && b.aborted);
                (spec.property.to_string(), seed, ok, format!("{:?} vs {:?} {}", fa, fb, a.stderr_tail))
            })
        }).collect();
        hs.into_iter().map(|h| h.join().unwrap()).collect()
    });
    for (p, seed, ok, d) in results {
        if !ok {
            eprintln!("NONDETERMINISM property={} seed={} {}", p, seed, d);
            bad += 1;
        }
    }
    println!("selfcheck: {} check(s) x {} seed(s) executed twice in fresh processes, {} mismatch(es)", all.len(), n, bad);
    if bad > 0 { 2 } else { 0 }
}

//! SimKit: the shared engine (chooser, trace, violations, stats).
//!
//! One integer decides everything: every decision of a run is drawn through
//! [`Chooser`], which either records the draws of a seeded PRNG or replays a
//! recorded vector (and reads 0 = "benign" once the vector is exhausted).

pub mod alloc;
pub mod driver;
pub mod entropy;
pub mod json;

use std::collections::BTreeMap;

/// splitmix64 step.
pub fn splitmix(mut x: u64) -> u64 {
    x = x.wrapping_add(0x9E3779B97F4A7C15);
    let mut z = x;
    z = (z ^ (z >> 30)).wrapping_mul(0xBF58476D1CE4E5B9);
    z = (z ^ (z >> 27)).wrapping_mul(0x94D049BB133111EB);
    z ^ (z >> 31)
}

/// FNV-1a 64 over bytes, continuing from `h`.
pub fn fnv(mut h: u64, bytes: &[u8]) -> u64 {
    for b in bytes {
        h ^= *b as u64;
        h = h.wrapping_mul(0x100000001b3);
    }
    h
}
pub const FNV0: u64 = 0xcbf29ce484222325;

pub fn hash_str(s: &str) -> u64 {
    fnv(FNV0, s.as_bytes())
}

/// Derive the seed of run `index` of check `prop` from the base seed.
pub fn run_seed(base: u64, prop: &str, index: u64) -> u64 {
    splitmix(splitmix(base ^ hash_str(prop)).wrapping_add(index.wrapping_mul(0x9E3779B97F4A7C15)))
}

#[derive(Clone)]
struct Xoshiro([u64; 4]);

impl Xoshiro {
    fn new(seed: u64) -> Self {
        let mut s = seed;
        let mut st = [0u64; 4];
        for x in st.iter_mut() {
            s = splitmix(s);
            *x = s;
        }
        Xoshiro(st)
    }
    fn next(&mut self) -> u64 {
        let s = &mut self.0;
        let result = s[1].wrapping_mul(5).rotate_left(7).wrapping_mul(9);
        let t = s[1] << 17;
        s[2] ^= s[0];
        s[3] ^= s[1];
        s[1] ^= s[2];
        s[0] ^= s[3];
        s[2] ^= t;
        s[3] = s[3].rotate_left(45);
        result
    }
}

/// The single source of nondeterminism of a run.
///
/// Draws are grouped in segments: a world calls [`Chooser::mark`] at the start of every
/// scheduler step, so that the draws of one step never shift into another step when the
/// minimiser deletes or shortens a segment.
pub struct Chooser {
    rng: Option<Xoshiro>,
    /// Recorded (record mode) or given (replay mode) draws, by segment.
    pub choices: Vec<Vec<u32>>,
    seg: usize,
    pos: usize,
    /// The run seed (also seeds service RNGs, keys, entropy).
    pub seed: u64,
    /// Number of draws made.
    pub draws: u64,
}

impl Chooser {
    pub fn record(seed: u64) -> Self {
        Chooser {
            rng: Some(Xoshiro::new(seed)),
            choices: vec![Vec::new()],
            seg: 0,
            pos: 0,
            seed,
            draws: 0,
        }
    }

    pub fn replay(seed: u64, choices: Vec<Vec<u32>>) -> Self {
        Chooser {
            rng: None,
            choices,
            seg: 0,
            pos: 0,
            seed,
            draws: 0,
        }
    }

    /// Start a new segment (one scheduler step).
    pub fn mark(&mut self) {
        if self.rng.is_some() {
            self.choices.push(Vec::new());
        }
        self.seg += 1;
        self.pos = 0;
    }

    /// In replay mode: are there recorded segments left after the current one?
    pub fn exhausted(&self) -> bool {
        self.rng.is_none() && self.seg + 1 >= self.choices.len()
    }

    /// Uniform draw in `0..n` (`n >= 1`). 0 is always the benign alternative.
    pub fn pick(&mut self, n: u32) -> u32 {
        self.draws += 1;
        match &mut self.rng {
            Some(r) => {
                let v = if n <= 1 { 0 } else { (r.next() % n as u64) as u32 };
                self.choices.last_mut().unwrap().push(v);
                v
            }
            None => {
                let v = self.choices.get(self.seg).and_then(|s| s.get(self.pos)).copied().unwrap_or(0);
                self.pos += 1;
                if n <= 1 {
                    0
                } else {
                    v % n
                }
            }
        }
    }

    pub fn pick_usize(&mut self, n: usize) -> usize {
        self.pick(n as u32) as usize
    }

    /// Inclusive range draw; `lo` is benign.
    pub fn range(&mut self, lo: u64, hi: u64) -> u64 {
        debug_assert!(hi >= lo);
        let span = (hi - lo + 1).min(u32::MAX as u64) as u32;
        lo + self.pick(span) as u64
    }

    /// True with probability num/den; a replayed 0 reads as false.
    pub fn chance(&mut self, num: u32, den: u32) -> bool {
        if num == 0 {
            // do not consume: rate 0 means the site is disabled for this run.
            return false;
        }
        let v = self.pick(den);
        v >= den.saturating_sub(num)
    }

    /// Weighted index; alternative 0 should be the benign one.
    pub fn weighted(&mut self, w: &[u32]) -> usize {
        let total: u32 = w.iter().sum();
        if total == 0 {
            self.pick(1);
            return 0;
        }
        let mut v = self.pick(total);
        for (i, x) in w.iter().enumerate() {
            if v < *x {
                return i;
            }
            v -= *x;
        }
        w.len() - 1
    }

    pub fn choose<'a, T>(&mut self, xs: &'a [T]) -> &'a T {
        &xs[self.pick_usize(xs.len())]
    }

    /// A raw 64-bit value (two draws); 0 when replay is exhausted.
    pub fn u64(&mut self) -> u64 {
        let a = self.pick(u32::MAX) as u64;
        let b = self.pick(u32::MAX) as u64;
        (a << 32) | b
    }

    /// `n` bytes, one draw per 3 bytes.
    pub fn bytes(&mut self, n: usize) -> Vec<u8> {
        let mut out = Vec::with_capacity(n);
        while out.len() < n {
            let v = self.pick(1 << 24);
            for k in 0..3 {
                if out.len() < n {
                    out.push((v >> (8 * k)) as u8);
                }
            }
        }
        out
    }
}

/// An oracle failure.
#[derive(Clone, Debug)]
pub struct Violation {
    pub property: String,
    /// Stable class: which rule failed on which kind of trigger. Never a line number.
    pub class: String,
    pub detail: String,
}

/// Event log with a running fingerprint.
pub struct Trace {
    pub lines: Vec<String>,
    pub fingerprint: u64,
    pub seq_hash: u64,
    pub count: u64,
    cap: usize,
}

impl Trace {
    pub fn new() -> Self {
        Trace {
            lines: Vec::new(),
            fingerprint: FNV0,
            seq_hash: FNV0,
            count: 0,
            cap: 4000,
        }
    }
    /// Log a line; `kind` feeds the coarser event-sequence hash.
    pub fn log(&mut self, kind: &str, line: String) {
        self.fingerprint = fnv(self.fingerprint, line.as_bytes());
        self.fingerprint = fnv(self.fingerprint, b"\n");
        self.seq_hash = fnv(self.seq_hash, kind.as_bytes());
        self.seq_hash = fnv(self.seq_hash, b"|");
        self.count += 1;
        if self.lines.len() < self.cap {
            self.lines.push(format!("{:06} {}", self.count, line));
        }
    }
}

/// Everything a run reports.
pub struct RunResult {
    pub violations: Vec<Violation>,
    /// Oracle failures of *other* properties met during this run (counted only).
    pub foreign: BTreeMap<String, u64>,
    pub trace: Trace,
    /// fault kind -> times it actually changed something; probe -> hits
    pub counters: BTreeMap<String, u64>,
    /// hashes of abstract states reached
    pub states: Vec<u64>,
    pub steps: u64,
    pub sim_ms: u64,
    /// Was this run non-trivial by the world's stated rule?
    pub nontrivial: bool,
    /// Short human description of the run's shape (for evidence samples).
    pub summary: String,
}

impl RunResult {
    pub fn new() -> Self {
        RunResult {
            violations: Vec::new(),
            foreign: BTreeMap::new(),
            trace: Trace::new(),
            counters: BTreeMap::new(),
            states: Vec::new(),
            steps: 0,
            sim_ms: 0,
            nontrivial: false,
            summary: String::new(),
        }
    }
    pub fn hit(&mut self, name: &str) {
        *self.counters.entry(name.to_string()).or_insert(0) += 1;
    }
    pub fn hit_n(&mut self, name: &str, n: u64) {
        *self.counters.entry(name.to_string()).or_insert(0) += n;
    }
    /// Report an oracle failure. `own` is the property the current check speaks for.
    pub fn violate(&mut self, own: &str, property: &str, class: &str, detail: String) {
        if own == property || own == "*" {
            // de-duplicate by class within a run
            if !self.violations.iter().any(|v| v.class == class) {
                self.violations.push(Violation {
                    property: property.to_string(),
                    class: class.to_string(),
                    detail,
                });
            }
        } else {
            *self.foreign.entry(property.to_string()).or_insert(0) += 1;
        }
    }
    pub fn state(&mut self, h: u64) {
        if self.states.len() < 512 {
            self.states.push(h);
        }
    }
}

/// Static description of a check: which world decides which property.
pub struct CheckSpec {
    pub property: &'static str,
    pub world: &'static str,
    pub level: &'static str,
    /// number of runs for quick / thorough
    pub quick_runs: u64,
    pub thorough_runs: u64,
    /// wall-clock caps in seconds
    pub quick_secs: u64,
    pub thorough_secs: u64,
    pub rule: &'static str,
    pub real: &'static [&'static str],
    pub stubbed: &'static [&'static str],
    pub assumptions: &'static [&'static str],
    /// probes that must fire at least once per batch, else exit 2
    pub required_probes: &'static [&'static str],
    /// does the world need a private scratch directory on disk?
    pub needs_scratch: bool,
    pub run: fn(&mut Chooser, &RunCfg) -> RunResult,
}

pub struct RunCfg {
    pub property: String,
    /// index of the run inside the batch (used for enumerated grids)
    pub index: u64,
    pub tier_thorough: bool,
    /// scratch directory private to this run (created, removed by the driver)
    pub scratch: std::path::PathBuf,
}

//! Counting global allocator: records the largest single request made inside a
//! "scope" on the current thread, and refuses (returns null => the process aborts)
//! any request above a hard cap after writing one marker line to fd 2, so that an
//! attacker-chosen allocation size takes down a worker process, not the machine.

use std::alloc::{GlobalAlloc, Layout, System};
use std::cell::Cell;

pub const HARD_CAP: usize = 256 * 1024 * 1024;

thread_local! {
    static ACTIVE: Cell<bool> = const { Cell::new(false) };
    static MAX_REQ: Cell<usize> = const { Cell::new(0) };
    /// soft cap for the current scope: requests above it are *recorded* as refused but
    /// still served when below the hard cap.
    static OVER_SOFT: Cell<usize> = const { Cell::new(0) };
    static SOFT_CAP: Cell<usize> = const { Cell::new(usize::MAX) };
}

pub struct Counting;

#[inline]
fn note(size: usize) {
    let _ = ACTIVE.try_with(|a| {
        if a.get() {
            let _ = MAX_REQ.try_with(|m| {
                if size > m.get() {
                    m.set(size)
                }
            });
            let _ = SOFT_CAP.try_with(|c| {
                if size > c.get() {
                    let _ = OVER_SOFT.try_with(|o| {
                        if size > o.get() {
                            o.set(size)
                        }
                    });
                }
            });
        }
    });
}

fn refuse(size: usize) {
    let mut buf = [0u8; 64];
    let prefix = b"ALLOC-CAP size=";
    let mut n = 0;
    for b in prefix {
        buf[n] = *b;
        n += 1;
    }
    let mut digits = [0u8; 24];
    let mut d = 0;
    let mut s = size;
    if s == 0 {
        digits[0] = b'0';
        d = 1;
    }
    while s > 0 {
        digits[d] = b'0' + (s % 10) as u8;
        s /= 10;
        d += 1;
    }
    while d > 0 {
        d -= 1;
        buf[n] = digits[d];
        n += 1;
    }
    buf[n] = b'\n';
    n += 1;
    unsafe {
        libc::write(2, buf.as_ptr() as *const libc::c_void, n);
    }
}

unsafe impl GlobalAlloc for Counting {
    unsafe fn alloc(&self, layout: Layout) -> *mut u8 {
        note(layout.size());
        if layout.size() > HARD_CAP {
            refuse(layout.size());
            return std::ptr::null_mut();
        }
        System.alloc(layout)
    }
    unsafe fn alloc_zeroed(&self, layout: Layout) -> *mut u8 {
        note(layout.size());
        if layout.size() > HARD_CAP {
            refuse(layout.size());
            return std::ptr::null_mut();
        }
        System.alloc_zeroed(layout)
    }
    unsafe fn dealloc(&self, ptr: *mut u8, layout: Layout) {
        System.dealloc(ptr, layout)
    }
    unsafe fn realloc(&self, ptr: *mut u8, layout: Layout, new_size: usize) -> *mut u8 {
        note(new_size);
        if new_size > HARD_CAP {
            refuse(new_size);
            return std::ptr::null_mut();
        }
        System.realloc(ptr, layout, new_size)
    }
}

/// Run `f` and return (result, largest single allocation request made by it on this thread).
pub fn scope<T>(f: impl FnOnce() -> T) -> (T, usize) {
    let prev_active = ACTIVE.with(|a| a.replace(true));
    let prev_max = MAX_REQ.with(|m| m.replace(0));
    let r = f();
    let max = MAX_REQ.with(|m| m.replace(prev_max.max(0)));
    ACTIVE.with(|a| a.set(prev_active));
    (r, max)
}

//! Panic capture helpers (kept separate from the driver).

use std::cell::RefCell;
use std::panic::{catch_unwind, AssertUnwindSafe};

thread_local! {
    static LAST_PANIC: RefCell<Option<PanicInfo>> = const { RefCell::new(None) };
}
static LAST_ANY: std::sync::Mutex<Option<PanicInfo>> = std::sync::Mutex::new(None);

pub fn last_panic() -> Option<PanicInfo> {
    LAST_ANY.lock().ok().and_then(|g| g.clone())
}

#[derive(Clone, Debug)]
pub struct PanicInfo {
    pub file: String,
    pub message: String,
}

impl PanicInfo {
    /// Stable class fragment: source file (relative to the crate) + normalised message.
    pub fn class(&self) -> String {
        let file = self
            .file
            .rsplit_once("/crates/")
            .map(|(_, f)| f.to_string())
            .unwrap_or_else(|| {
                // registry or std paths: keep the last two components
                let parts: Vec<&str> = self.file.rsplit('/').take(2).collect();
                parts.into_iter().rev().collect::<Vec<_>>().join("/")
            });
        format!("{}:{}", file, normalise(&self.message))
    }
}

/// Replace digit runs and long hex/base58-ish tokens so that the class is input-independent.
pub fn normalise(msg: &str) -> String {
    let first = msg.lines().next().unwrap_or("");
    let mut out = String::new();
    let mut tok = String::new();
    let flush = |tok: &mut String, out: &mut String| {
        if tok.is_empty() {
            return;
        }
        let has_digit = tok.chars().any(|c| c.is_ascii_digit());
        if tok.len() > 20 || (has_digit && tok.chars().all(|c| c.is_ascii_alphanumeric())) && tok.chars().filter(|c| c.is_ascii_digit()).count() * 2 >= tok.len() {
            out.push('#');
        } else {
            out.push_str(tok);
        }
        tok.clear();
    };
    for c in first.chars() {
        if c.is_ascii_alphanumeric() {
            tok.push(c);
        } else {
            flush(&mut tok, &mut out);
            out.push(c);
        }
    }
    flush(&mut tok, &mut out);
    if out.len() > 120 {
        out.truncate(120);
    }
    out
}

pub fn install_hook() {
    std::panic::set_hook(Box::new(|info| {
        let file = info
            .location()
            .map(|l| l.file().to_string())
            .unwrap_or_default();
        let message = if let Some(s) = info.payload().downcast_ref::<&str>() {
            s.to_string()
        } else if let Some(s) = info.payload().downcast_ref::<String>() {
            s.clone()
        } else {
            "<non-string panic>".to_string()
        };
        let line = info.location().map(|l| l.line()).unwrap_or(0);
        if let Ok(mut g) = LAST_ANY.lock() {
            *g = Some(PanicInfo { file: format!("{file}:{line}"), message: message.clone() });
        }
        LAST_PANIC.with(|p| *p.borrow_mut() = Some(PanicInfo { file, message }));
    }));
}

/// Run `f`, catching a panic and returning where it happened.
pub fn catch<T>(f: impl FnOnce() -> T) -> Result<T, PanicInfo> {
    LAST_PANIC.with(|p| *p.borrow_mut() = None);
    match catch_unwind(AssertUnwindSafe(f)) {
        Ok(v) => Ok(v),
        Err(_) => Err(LAST_PANIC
            .with(|p| p.borrow_mut().take())
            .unwrap_or(PanicInfo {
                file: "?".into(),
                message: "?".into(),
            })),
    }
}

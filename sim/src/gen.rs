//! Generators shared by the worlds: keys, repository ids, wire messages.

use std::str::FromStr;

use radicle::crypto::test::signer::MockSigner;
use radicle::git::Oid;
use radicle::identity::RepoId;
use radicle::node::device::Device;
use radicle::node::{Address, Alias, Features, Timestamp, UserAgent};
use radicle::storage::refs::RefsAt;
use radicle_node::bounded::BoundedVec;
use radicle_node::service::filter::Filter;
use radicle_node::service::message::{
    Announcement, AnnouncementMessage, Info, InventoryAnnouncement, NodeAnnouncement, Ping,
    RefsAnnouncement, Subscribe, ZeroBytes,
};
use radicle_node::service::Message;
use radicle_node::PROTOCOL_VERSION;

use crate::kit::{splitmix, Chooser};

/// Deterministic key `k` of a run.
pub fn key(run_seed: u64, k: u64) -> Device<MockSigner> {
    let mut seed = [0u8; 32];
    let mut s = splitmix(run_seed ^ (k.wrapping_mul(0xA24BAED4963EE407)));
    for chunk in seed.chunks_mut(8) {
        s = splitmix(s);
        chunk.copy_from_slice(&s.to_le_bytes());
    }
    Device::mock_from_seed(seed)
}

pub fn oid_of(n: u64) -> Oid {
    let mut b = [0u8; 20];
    let mut s = splitmix(n ^ 0x0123_4567_89AB_CDEF);
    for chunk in b.chunks_mut(8) {
        s = splitmix(s);
        let bytes = s.to_le_bytes();
        let l = chunk.len();
        chunk.copy_from_slice(&bytes[..l]);
    }
    Oid::try_from(&b[..]).expect("20 bytes")
}

pub fn rid_of(n: u64) -> RepoId {
    RepoId::from(oid_of(n ^ 0xFEED))
}

pub fn addr_of(n: u64) -> Address {
    let a = std::net::SocketAddr::from(([8, 8, (n >> 8) as u8, n as u8], 8776));
    Address::from(a)
}

pub fn node_announcement(ts: Timestamp, alias: &str, addrs: Vec<Address>, features: Features, agent: Option<&str>) -> NodeAnnouncement {
    NodeAnnouncement {
        version: PROTOCOL_VERSION,
        features,
        timestamp: ts,
        alias: Alias::from_str(alias).expect("valid alias"),
        addresses: BoundedVec::truncate(addrs),
        nonce: 0,
        agent: agent.map(|a| UserAgent::from_str(a).expect("valid agent")).unwrap_or_default(),
    }
}

pub fn inventory(ts: Timestamp, rids: Vec<RepoId>) -> InventoryAnnouncement {
    InventoryAnnouncement {
        inventory: BoundedVec::truncate(rids),
        timestamp: ts,
    }
}

pub fn refs(ts: Timestamp, rid: RepoId, refs: Vec<RefsAt>) -> RefsAnnouncement {
    RefsAnnouncement {
        rid,
        refs: BoundedVec::truncate(refs),
        timestamp: ts,
    }
}

pub fn signed(msg: impl Into<AnnouncementMessage>, signer: &Device<MockSigner>) -> Announcement {
    msg.into().signed(signer)
}

/// A random but valid wire message (sizes biased to the small end, sometimes at the limits).
pub fn message(ch: &mut Chooser, run_seed: u64) -> Message {
    let ts_pool = [0u64, 1, 1_700_000_000_000, 1_700_000_000_001, u64::MAX >> 1];
    let ts = Timestamp::try_from(*ch.choose(&ts_pool)).unwrap_or(Timestamp::MAX);
    match ch.pick(7) {
        0 => Message::Ping(Ping {
            ponglen: *ch.choose(&[0u16, 1, 64, Ping::MAX_PONG_ZEROES, u16::MAX]),
            zeroes: ZeroBytes::new(*ch.choose(&[0u16, 1, 33, 1000, Ping::MAX_PING_ZEROES])),
        }),
        1 => Message::Pong {
            zeroes: ZeroBytes::new(*ch.choose(&[0u16, 1, 64, 4096, Ping::MAX_PONG_ZEROES])),
        },
        2 => {
            let filter = match ch.pick(3) {
                0 => Filter::default(),
                1 => Filter::new([rid_of(1), rid_of(2)]),
                _ => Filter::empty(),
            };
            Message::Subscribe(Subscribe {
                filter,
                since: ts,
                until: Timestamp::try_from(*ch.choose(&ts_pool)).unwrap_or(Timestamp::MAX),
            })
        }
        3 => Message::Info(Info::RefsAlreadySynced {
            rid: rid_of(ch.pick(4) as u64),
            at: oid_of(ch.pick(4) as u64),
        }),
        4 => {
            let n = *ch.choose(&[0usize, 1, 2, 7, 300]);
            let k = key(run_seed, 100 + ch.pick(3) as u64);
            signed(inventory(ts, (0..n as u64).map(rid_of).collect()), &k).into()
        }
        5 => {
            let n = *ch.choose(&[0usize, 1, 2, 5, 200]);
            let k = key(run_seed, 100 + ch.pick(3) as u64);
            let rs = (0..n as u64)
                .map(|i| RefsAt {
                    remote: *key(run_seed, 200 + i % 7).public_key(),
                    at: oid_of(i),
                })
                .collect();
            signed(refs(ts, rid_of(ch.pick(3) as u64), rs), &k).into()
        }
        _ => {
            let k = key(run_seed, 100 + ch.pick(3) as u64);
            let n = ch.pick(4) as u64;
            let agent = if ch.pick(2) == 0 { Some("/radicle:1.0/") } else { None };
            signed(
                node_announcement(ts, *ch.choose(&["a", "mocky", "node-with-a-long-alias-012345678"]), (0..n).map(addr_of).collect(), Features::SEED, agent),
                &k,
            )
            .into()
        }
    }
}

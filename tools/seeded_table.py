#!/usr/bin/env python3
"""Markdown table of the seeded changes under /verif/seeded and what each check reported for them."""
import json, glob, os, re
rows = []
for d in sorted(glob.glob('/verif/seeded/*/*/')):
    pid, k = d.rstrip('/').split('/')[-2:]
    try:
        meta = json.load(open(d + 'meta.json'))
    except Exception:
        meta = {}
    summary = (meta.get('summary') or '').replace('\n', ' ').replace('|', '/')
    if len(summary) > 230:
        summary = summary[:227] + '...'
    res = []
    for f in sorted(glob.glob(d + 'result-*.txt')):
        chk = os.path.basename(f)[7:-4]
        t = open(f).read()
        rc = re.search(r'exit=(\d+)', t)
        classes = sorted(set(re.findall(r'class=(\S+)', t)))
        # known-finding lines also carry class=: keep only those under VIOLATION
        viol = []
        lines = t.splitlines()
        for i, l in enumerate(lines):
            if l.startswith('VIOLATION') and i + 1 < len(lines):
                m = re.search(r'class=(\S+)', lines[i + 1])
                if m:
                    viol.append(m.group(1))
        viol = sorted(set(viol))
        if rc and rc.group(1) == '1':
            res.append(f"**{chk}**: " + ", ".join(f"`{v[:70]}`" for v in viol[:3]) + (" ..." if len(viol) > 3 else ""))
        elif rc and rc.group(1) == '2':
            res.append(f"{chk}: exit 2 (harness error)")
        elif 'exit=superseded' in t:
            res.append(f"{chk}: superseded by a repair (see result file)")
        elif chk == pid:
            res.append(f"{chk}: not caught")
    rows.append((pid, k, summary, "; ".join(res) if res else "not run"))
print("| change | what it does | what the checks reported (quick tier) |")
print("|---|---|---|")
for pid, k, s, r in rows:
    print(f"| {pid}/{k} | {s} | {r} |")

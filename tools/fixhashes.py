#!/usr/bin/env python3
"""Refresh the commit hashes of 'fixed' entries in known-findings.jsonl from /repo's history
(each entry carries the grep pattern that identifies its fix: commit)."""
import json, subprocess, re
GREP = {
 "C14/alloc/declared-length-reserved": "don't allocate peer-declared",
 "C14/abort/alloc-cap": "don't allocate peer-declared",
 "C14/complete-invalid-as-incomplete/truncated-inner": "truncated gossip message",
 "C14/complete-invalid-as-incomplete/garbage-inner": "truncated gossip message",
 "C11/leak/refs/own/on-subscribe": "replay refs announcements of private",
 "C11/leak/refs/foreign/on-subscribe": "replay refs announcements of private",
 "C25/fetcher/local-node-counted": "result of the local node",
 "C25/fetcher/success-before-target": "only the first fetch result",
}
out = []
for l in open('/verif/known-findings.jsonl'):
    if not l.strip():
        continue
    e = json.loads(l)
    if e.get("status") == "fixed":
        pat = e.get("grep") or GREP.get(e["class"])
        if not pat:
            if "zero" in e["class"]: pat = "zero timestamp"
            elif "from <= *to" in e["class"] or "subscribe" in e["class"]: pat = "time range is inverted"
            elif "TryFromIntError" in e["class"]: pat = "subscription backlog"
            elif e["class"].startswith("C27"): pat = "empty identities answer"
        e["grep"] = pat
        h = subprocess.run(["git", "-C", "/repo", "log", "--format=%h", "-1", "--grep=" + pat], capture_output=True, text=True).stdout.strip()
        assert h, (e["class"], pat)
        old = e.get("commit", "")
        e["commit"] = h
        if old and old != h:
            e["what_fails"] = e["what_fails"].replace(old, h)
    out.append(e)
open('/verif/known-findings.jsonl', 'w').write("".join(json.dumps(e) + "\n" for e in out))
print("fixed entries:", sum(1 for e in out if e["status"] == "fixed"), "known:", sum(1 for e in out if e["status"] == "known"))

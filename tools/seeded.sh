#!/bin/bash
# usage: tools/seeded.sh <id> <k> <tier> <check> [<check>...]
# Applies /verif/seeded/<id>/<k>/patch.diff to /repo's working tree, runs the given checks,
# records what each reported in /verif/seeded/<id>/<k>/result-<check>.txt, and undoes the change.
set -u
id=$1; k=$2; tier=$3; shift 3
d=/verif/seeded/$id/$k
if [ -n "$(git -C /repo status --porcelain --untracked-files=no)" ]; then echo "/repo is dirty"; exit 2; fi
git -C /repo apply "$d/patch.diff" || { echo "patch does not apply"; exit 2; }
for c in "$@"; do
  rm -f /verif/evidence/$c.json.mutant
  cp /verif/evidence/$c.json /tmp/evidence-$c.keep 2>/dev/null
  out=$(cd /verif && ./check $c $tier 2>&1); rc=$?
  { echo "exit=$rc"; echo "$out" | grep -E "^(VIOLATION|KNOWN-FINDING|  class=|summary|HARNESS|hwsim check)" | cut -c1-600; } > $d/result-$c.txt
  echo "$id/$k $c exit=$rc $(echo "$out" | grep -c '^VIOLATION') violation line(s)"
  # the evidence of a run against a modified tree is not evidence of the unchanged tree
  if [ -f /tmp/evidence-$c.keep ]; then mv /tmp/evidence-$c.keep /verif/evidence/$c.json; fi
done
git -C /repo checkout -- .

#!/usr/bin/env python3
"""Regenerate /verif/MANIFEST.json from the table below (single source of truth)."""
import json, subprocess

props = [json.loads(l) for l in open('/verif/properties.jsonl')]
ids = [p['id'] for p in props]

# claimed checks: id -> (level, technique, level text, level note, design ref)
CLAIMED = {
 "C14": ("fault_enumeration",
         "deterministic simulation: seeded byte-pipe scheduler + byzantine frame faults against the real Deserializer<Frame>, counting allocator, replay/minimise",
         "Every run feeds 1..5 real frames (one of them possibly altered by a byzantine peer) to the real stream decoder through every single split point (small streams) or sampled+boundary split points and multi-way splits; oracles: identical outputs for every chunking and equal to the canonical re-encoding, largest single allocation per decode call <= 2 x bytes received + 64 KiB, a complete frame never reported as incomplete. Fault kinds are enumerated (each lying-length value, each alteration kind, each varint width) and the schedule (split points) is enumerated for small streams, sampled for large ones.",
         "Trusted: the harness' own frame encoder (60 lines), the counting allocator, rustc. Not covered: the Noise transport that hands bytes to Wire, memory used by the inbox buffer itself (bounded by MAX_INBOX_SIZE by construction).",
         "DESIGN.md section 5 C14, section 4.D"),
}

NA = {
 "C18": "pure function of one in-memory JSON value (CanonicalFormatter): no schedule, clock, stream, peer, durable state or fault to inject; deterministic simulation has nothing to decide here",
 "C19": "pure validation/encoding of one identity document value; no nondeterminism or fault dimension in this code base",
 "C20": "pure text round-trip and signature check over one refs blob; no nondeterminism or fault dimension (forged/non-canonical blobs are used as fault kinds inside C01's world, without a claim on C20)",
 "C21": "Display/FromStr round-trips of single values; pure functions",
 "C23": "radicle_dag::Dag algorithms on one in-memory graph; pure functions",
 "C26": "string truncation; pure function of (text, width, delimiter)",
 "C30": "unified-diff encode/decode of one git2::Diff; pure function",
}

checks = []
for i in ids:
    if i in CLAIMED:
        level, tech, text, note, ref = CLAIMED[i]
        checks.append({
            "property_id": i,
            "quick_cmd": f"./check {i} quick",
            "thorough_cmd": f"./check {i} thorough",
            "evidence_file": f"/verif/evidence/{i}.json",
            "replay_cmd_template": "./check --replay {path}",
            "engine": "hwsim",
            "level_claimed": {"category": level, "text": text, "design_ref": ref},
            "level_note": note,
            "technique": tech,
        })

na = []
for i in ids:
    if i in CLAIMED:
        continue
    na.append({"property_id": i, "reason": NA.get(i, "not built yet: the simulated world for this property is planned in DESIGN.md section 5 but no check exists at this commit")})

hooks = subprocess.run(["git","-C","/repo","log","--format=%h %s","--grep=^verif hook"],capture_output=True,text=True).stdout.strip().splitlines()
m = {
 "version": 1,
 "setup_cmd": "./check --setup",
 "hooks": {
   "guard": "cargo feature `verif` on crate radicle-node (off by default, not implied by `default` or `test`)",
   "enable": "the harness crate /verif/sim depends on /repo/crates/radicle-node by path with features [\"test\", \"verif\"]; ./check rebuilds it from /repo's working tree on every invocation",
   "baseline_off_cmd": "cd /repo && cargo nextest run --workspace --no-fail-fast --offline || cargo test --workspace --no-fail-fast --offline",
   "source_commits": [h.split()[0] for h in hooks],
   "add_only": True,
 },
 "engines": [{"name": "hwsim", "path": "/verif/sim", "serves_properties": sorted(CLAIMED), "kind_free_text": "deterministic simulator (seeded chooser with record/replay, discrete-event scheduler, fault injection, oracles, delta-debugging minimiser) written for this task on std only; runs the real heartwood crates in-process"}],
 "checks": checks,
 "not_applicable": na,
 "notes": "Exit codes: 0 held, 1 VIOLATION (replay file under /verif/replays), 2 harness error (build failure, nondeterminism, required probe never fired). Known findings and fixed defects: /verif/known-findings.jsonl. VERIF_SEED selects the base seed (default 20260921); VERIF_SCALE scales the run budget.",
}
json.dump(m, open('/verif/MANIFEST.json','w'), indent=1)
print("claimed", len(checks), "n/a", len(na))

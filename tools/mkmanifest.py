#!/usr/bin/env python3
"""Regenerate /verif/MANIFEST.json from the table below (single source of truth)."""
import json, subprocess

props = [json.loads(l) for l in open('/verif/properties.jsonl')]
ids = [p['id'] for p in props]

# claimed checks: id -> (level, technique, level text, level note, design ref)
CLAIMED = {
 "C14": ("fault_enumeration",
         "deterministic simulation: seeded byte-pipe scheduler + byzantine frame faults against the real Deserializer<Frame>, counting allocator, replay/minimise",
         "Every run feeds 1..5 real frames (one of them possibly altered by a byzantine peer) to the real stream decoder through every single split point (small streams) or sampled+boundary split points and multi-way splits; oracles: identical outputs for every chunking and equal to the canonical re-encoding, largest single allocation per decode call <= 2 x bytes received + 64 KiB, a complete frame never reported as incomplete. Fault kinds are enumerated (each lying-length value, each alteration kind, each varint width) and the schedule (split points) is enumerated for small streams, sampled for large ones.",
         "Trusted: the harness' own frame encoder (60 lines), the counting allocator, rustc. Not covered: the Noise transport that hands bytes to Wire, memory used by the inbox buffer itself (bounded by MAX_INBOX_SIZE by construction).",
         "DESIGN.md section 5 C14, section 4.D"),
 "C10": ("exploration", "deterministic simulation: seeded discrete-event scheduler over real Service instances + SQLite stores + real frame codec, byzantine puppets, fault injection (drops, partitions, crash/restart, clock steps, worker failures, reordering, fragmentation), step oracles on ground truth, replay + segment-wise delta-debugging", "Every foreign announcement a real node emits or stores is checked against the simulator's ground truth of what was delivered to it, by whom and when: delivered before, signature verifies (checked with the crypto primitive), not more than 1 h ahead of the node's clock at some delivery, announcer known at some delivery, per (announcer, kind, repo) timestamps never go back or repeat with different content, never sent to its announcer or to a peer that delivered it (outside subscription replays). Puppets forge, replay, re-sign and boundary-time announcements; several relayers deliver the same one; nodes crash and restart.", "Trusted/stubbed: wire::Wire is replaced by a model of its rules (DESIGN 4.A), so a change inside Wire, the reactor, Noise or the worker pool is invisible; MockStorage stands in for radicle::Storage; connection-conflict resolution is not modelled. Sampling, not enumeration: a clean batch is evidence, not proof.", "DESIGN.md section 5 C10"),
 "C11": ("exploration", "deterministic simulation: seeded discrete-event scheduler over real Service instances + SQLite stores + real frame codec, byzantine puppets, fault injection (drops, partitions, crash/restart, clock steps, worker failures, reordering, fragmentation), step oracles on ground truth, replay + segment-wise delta-debugging", "After every event, every refs announcement a real node writes to a peer is checked against the visibility (delegates + allow list) of the repository in that node's own storage, whatever triggered the write (own announcement, relay, gossip tick, subscription replay, initial messages), and every inventory announcement it signs against the private repositories it holds. Private repositories with random allow lists, subscriptions before and after the announcement, restarts.", "Trusted/stubbed: wire::Wire is replaced by a model of its rules (DESIGN 4.A), so a change inside Wire, the reactor, Noise or the worker pool is invisible; MockStorage stands in for radicle::Storage; connection-conflict resolution is not modelled. Sampling, not enumeration: a clean batch is evidence, not proof. The initialize() pre-load path for private repositories needs real storage (synced_at) and is not exercised by MockStorage. Operator contract assumed: AddInventory is only issued for public repositories (as rad init/seed/publish do).", "DESIGN.md section 5 C11"),
 "C13": ("exploration", "deterministic simulation: seeded discrete-event scheduler over real Service instances + SQLite stores + real frame codec, byzantine puppets, fault injection (drops, partitions, crash/restart, clock steps, worker failures, reordering, fragmentation), step oracles on ground truth, replay + segment-wise delta-debugging", "Every call into a real node (message delivery in arbitrary fragments, connect/disconnect, wake, worker result, command) runs under catch_unwind on the shipped build profile; a panic or abort is a violation classed by its source site. Puppets send boundary-valued well-formed messages (timestamp 0/1/MAX, since>until, ping sizes, huge inventories), control frames with arbitrary stream ids, bit-flipped, truncated and garbage frames and lying length prefixes, in every connection state.", "Trusted/stubbed: wire::Wire is replaced by a model of its rules (DESIGN 4.A), so a change inside Wire, the reactor, Noise or the worker pool is invisible; MockStorage stands in for radicle::Storage; connection-conflict resolution is not modelled. Sampling, not enumeration: a clean batch is evidence, not proof. The git request-header half of the property (pkt-line parsing) is not covered by this check.", "DESIGN.md section 5 C13"),
 "C15": ("exploration", "deterministic simulation: seeded discrete-event scheduler over real Service instances + SQLite stores + real frame codec, byzantine puppets, fault injection (drops, partitions, crash/restart, clock steps, worker failures, reordering, fragmentation), step oracles on ground truth, replay + segment-wise delta-debugging", "Every message a real node emits (initial messages, relays, replies, pings at random sizes, inventories up to the limit) is encoded, checked against the 64 KiB limit, decoded by the real decoder and compared for equality, under workloads driven by the simulated peers. Only the first sentence of the property is decided here; the unique-encoding sentence is a pure codec statement and is only sampled through byzantine byte flips (see level_note).", "Trusted/stubbed: wire::Wire is replaced by a model of its rules (DESIGN 4.A), so a change inside Wire, the reactor, Noise or the worker pool is invisible; MockStorage stands in for radicle::Storage; connection-conflict resolution is not modelled. Sampling, not enumeration: a clean batch is evidence, not proof. The second sentence of C15 (any decodable bytes re-encode identically) is not claimed.", "DESIGN.md section 5 C15"),
 "C16": ("exploration", "deterministic simulation: seeded discrete-event scheduler over real Service instances + SQLite stores + real frame codec, byzantine puppets, fault injection (drops, partitions, crash/restart, clock steps, worker failures, reordering, fragmentation), step oracles on ground truth, replay + segment-wise delta-debugging", "SimWorker keeps ground truth of every fetch task (which Io::Fetch created it, on which connection epoch, whether it still runs) and of which task is the service's current fetch per repository. Step oracles: no Io::Fetch for a repository while another task for it runs on a live connection, per-peer concurrency and queue capacity respected, a delivered worker result only retires the fetch it belongs to, operators waiting on a fetch receive that fetch's result, no panic. Schedules favour disconnect/reconnect between a fetch start and its (late) result.", "Trusted/stubbed: wire::Wire is replaced by a model of its rules (DESIGN 4.A), so a change inside Wire, the reactor, Noise or the worker pool is invisible; MockStorage stands in for radicle::Storage; connection-conflict resolution is not modelled. Sampling, not enumeration: a clean batch is evidence, not proof.", "DESIGN.md section 5 C16"),
 "C29": ("exploration", "deterministic simulation: seeded discrete-event scheduler over real Service instances + SQLite stores + real frame codec, byzantine puppets, fault injection (drops, partitions, crash/restart, clock steps, worker failures, reordering, fragmentation), step oracles on ground truth, replay + segment-wise delta-debugging", "Every announcement signed by a real node that appears in any write or in its gossip store is collected per run of the node (between restarts), de-duplicated by bytes; oracle: no two distinct ones share a timestamp and per (kind, repository) timestamps increase in order of first appearance, while the node's clock is stalled, stepped backwards and jumped forwards.", "Trusted/stubbed: wire::Wire is replaced by a model of its rules (DESIGN 4.A), so a change inside Wire, the reactor, Noise or the worker pool is invisible; MockStorage stands in for radicle::Storage; connection-conflict resolution is not modelled. Sampling, not enumeration: a clean batch is evidence, not proof.", "DESIGN.md section 5 C29"),
}

NA = {
 "C18": "pure function of one in-memory JSON value (CanonicalFormatter): no schedule, clock, stream, peer, durable state or fault to inject; deterministic simulation has nothing to decide here",
 "C19": "pure validation/encoding of one identity document value; no nondeterminism or fault dimension in this code base",
 "C20": "pure text round-trip and signature check over one refs blob; no nondeterminism or fault dimension (forged/non-canonical blobs are used as fault kinds inside C01's world, without a claim on C20)",
 "C21": "Display/FromStr round-trips of single values; pure functions",
 "C23": "radicle_dag::Dag algorithms on one in-memory graph; pure functions",
 "C26": "string truncation; pure function of (text, width, delimiter)",
 "C30": "unified-diff encode/decode of one git2::Diff; pure function",
}

checks = []
for i in ids:
    if i in CLAIMED:
        level, tech, text, note, ref = CLAIMED[i]
        checks.append({
            "property_id": i,
            "quick_cmd": f"./check {i} quick",
            "thorough_cmd": f"./check {i} thorough",
            "evidence_file": f"/verif/evidence/{i}.json",
            "replay_cmd_template": "./check --replay {path}",
            "engine": "hwsim",
            "level_claimed": {"category": level, "text": text, "design_ref": ref},
            "level_note": note,
            "technique": tech,
        })

na = []
for i in ids:
    if i in CLAIMED:
        continue
    na.append({"property_id": i, "reason": NA.get(i, "not built yet: the simulated world for this property is planned in DESIGN.md section 5 but no check exists at this commit")})

hooks = subprocess.run(["git","-C","/repo","log","--format=%h %s","--grep=^verif hook"],capture_output=True,text=True).stdout.strip().splitlines()
m = {
 "version": 1,
 "setup_cmd": "./check --setup",
 "hooks": {
   "guard": "cargo feature `verif` on crate radicle-node (off by default, not implied by `default` or `test`)",
   "enable": "the harness crate /verif/sim depends on /repo/crates/radicle-node by path with features [\"test\", \"verif\"]; ./check rebuilds it from /repo's working tree on every invocation",
   "baseline_off_cmd": "cd /repo && cargo nextest run --workspace --no-fail-fast --offline || cargo test --workspace --no-fail-fast --offline",
   "source_commits": [h.split()[0] for h in hooks],
   "add_only": True,
 },
 "engines": [{"name": "hwsim", "path": "/verif/sim", "serves_properties": sorted(CLAIMED), "kind_free_text": "deterministic simulator (seeded chooser with record/replay, discrete-event scheduler, fault injection, oracles, delta-debugging minimiser) written for this task on std only; runs the real heartwood crates in-process"}],
 "checks": checks,
 "not_applicable": na,
 "notes": "Exit codes: 0 held, 1 VIOLATION (replay file under /verif/replays), 2 harness error (build failure, nondeterminism, required probe never fired). Known findings and fixed defects: /verif/known-findings.jsonl. VERIF_SEED selects the base seed (default 20260921); VERIF_SCALE scales the run budget.",
}
json.dump(m, open('/verif/MANIFEST.json','w'), indent=1)
print("claimed", len(checks), "n/a", len(na))

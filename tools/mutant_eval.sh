#!/bin/bash
# usage: tools/mutant_eval.sh <slot> <dir-with-patch.diff-and-demo.diff> <crate> <demo-test-filter> <check> [<check>...]
# Triage of a candidate seeded change WITHOUT touching /repo: a scratch worktree of /repo's HEAD
# (/tmp/mw<slot>) and a private copy of the simulator (/dev/shm/msim<slot>) whose path dependencies
# point at that worktree. Confirms (1) demonstration passes on the clean tree, (2) fails with the
# change, (3) the checks' verdict on the changed tree, (4) the existing tests of <crate> pass with
# the change. Writes <dir>/eval.txt. Results that are kept are re-recorded with tools/seeded.sh
# against /repo itself; this script only decides what is worth keeping.
set -u
slot=$1; src=$(realpath "$2"); crate=$3; filter=$4; shift 4
wt=/tmp/mw$slot; sim=/dev/shm/msim$slot; out=$src/eval.txt
export CARGO_NET_OFFLINE=true CARGO_TARGET_DIR=$wt/target
: > "$out"
if [ ! -d $wt ]; then git -C /repo worktree add --detach $wt HEAD >/dev/null 2>&1 || exit 2; fi
cd $wt && git checkout -q --detach "$(git -C /repo rev-parse HEAD)" && git checkout -- . && git clean -qfd -e target
# (1) demonstration on the clean tree
git apply "$src/demo.diff" || { echo "demo.diff does not apply" >> "$out"; exit 2; }
cargo test --offline -j 6 -p $crate "$filter" -- --test-threads=2 > $wt/demo-clean.log 2>&1; echo "demo-clean exit=$? $(grep -E '^test result' $wt/demo-clean.log | grep -v ' 0 passed; 0 failed' | head -3 | tr '\n' ' ')" >> "$out"
# (2) with the change
git apply "$src/patch.diff" || { echo "patch.diff does not apply" >> "$out"; exit 2; }
cargo test --offline -j 6 -p $crate "$filter" -- --test-threads=2 > $wt/demo-patched.log 2>&1; echo "demo-patched exit=$? $(grep -E '^test result' $wt/demo-patched.log | grep -v ' 0 passed; 0 failed' | head -3 | tr '\n' ' ')" >> "$out"
# back to: change only
git apply -R "$src/demo.diff" || { echo "cannot unapply demo" >> "$out"; exit 2; }
# (3) the checks, from a private copy of the simulator built against this worktree
if [ -z "${MUT_SKIP_SIM:-}" ]; then
mkdir -p $sim
rsync -a --exclude target /verif/sim/ $sim/
[ -d $sim/target ] || cp -r /verif/sim/target $sim/target
sed -i "s#/repo/crates/#$wt/crates/#g" $sim/Cargo.toml
( cd $sim && CARGO_TARGET_DIR=$sim/target cargo build --release --offline -j 6 > $sim/build.log 2>&1 ) || { echo "sim build failed" >> "$out"; tail -20 $sim/build.log >> "$out"; }
for c in "$@"; do
  mkdir -p /dev/shm/mout$slot/evidence /dev/shm/mout$slot/replays /dev/shm/mout$slot/findings
  o=$(cd $sim && VERIF_OUT=/dev/shm/mout$slot VERIF_WORKERS=${MUT_WORKERS:-6} VERIF_SCALE=${MUT_SCALE:-1} ./target/release/hwsim check $c quick 2>&1); rc=$?
  { echo "check $c exit=$rc"; echo "$o" | grep -E "^(VIOLATION|KNOWN-FINDING|  class=|summary|HARNESS)" | cut -c1-400; } >> "$out"
done
fi
# (4) existing tests of the crate with the change
if [ -z "${MUT_SKIP_TESTS:-}" ]; then
  cargo test --offline -j 6 -p $crate -- --test-threads=3 > $wt/tests-patched.log 2>&1; echo "existing-tests exit=$? $(grep -E '^test result' $wt/tests-patched.log | grep -v ' 0 passed; 0 failed' | tr '\n' ' ' | cut -c1-400)" >> "$out"
  grep -E "^test .* FAILED|^failures:" $wt/tests-patched.log | head -10 >> "$out"
fi
git checkout -- .
echo done >> "$out"

#!/bin/bash
# usage: tools/sweep.sh "<seeds>" [checks...]   -- runs the quick tier of every (or the given) check with
# each base seed from a private copy of the built binary; output under /dev/shm/sweep (not evidence).
seeds=$1; shift
checks=${*:-$(python3 -c "import json;print(' '.join(c['property_id'] for c in json.load(open('/verif/MANIFEST.json'))['checks']))")}
mkdir -p /dev/shm/sweep/bin; cp /verif/sim/target/release/hwsim /dev/shm/sweep/bin/hwsim.$$
for s in $seeds; do for c in $checks; do
  out=$(VERIF_OUT=/dev/shm/sweep VERIF_SEED=$s /dev/shm/sweep/bin/hwsim.$$ check $c quick 2>&1); rc=$?
  echo "seed=$s $c exit=$rc $(echo "$out" | grep -E '^summary' | cut -c1-200)"
  echo "$out" | grep -E "^VIOLATION|^  class=|^HARNESS" | cut -c1-400
done; done
rm -f /dev/shm/sweep/bin/hwsim.$$

#!/bin/bash
# usage: show.sh <check> <seed> <index> [lines]
/verif/sim/target/release/hwsim exec $1 $2 $3 quick 2>&1 | python3 -c "
import sys,json
for l in sys.stdin:
    if l.startswith('R '):
        v=json.loads(l[2:]); print([x['c'] for x in v['viol']]); print('\n'.join(x[:220] for x in v['trace'][-${4:-40}:]))
    elif not l.startswith('B '): print(l.rstrip()[:300])
"
